"""C12 — tour edits follow the insert/remove reference semantics (also carries the tour-level C09 lines)."""
import json
import os
import random
import time

from . import instgen, lib, netobs

PID = "C12"


def gen_tours(rng, obs, ntours=4, ncalls=10):
    tours = []
    for _ in range(ntours):
        ty = rng.randrange(max(1, obs.ntypes))
        chain = netobs.random_chain(rng, obs, ty, density=rng.choice([0.3, 0.5, 0.8]))
        if not chain:
            continue
        sds = obs.usable_start_depots(ty)
        if not sds:
            continue
        sd = rng.choice(sds)
        ed = rng.choice(obs.edepots)
        base = [sd] + chain + [ed]
        dummy = rng.random() < 0.25
        nodes_in = [n for n in chain if (not dummy or n.startswith("trip"))]
        if dummy and not nodes_in:
            dummy = False
            nodes_in = chain
        tour_nodes = nodes_in if dummy else base
        calls = []
        allnd = list(obs.svc.get(ty, [])) + list(obs.maint)
        for _ in range(ncalls):
            kind = rng.choice(["insert", "insert", "insert", "remove", "remove", "subpath", "subpath", "conflict",
                               "lnr", "removable", "rsd", "red", "pre", "sub", "mc"])
            if kind == "insert":
                p = netobs.random_chain(rng, obs, ty, density=rng.choice([0.2, 0.4, 0.7]))
                if not p:
                    continue
                r = rng.random()
                if r < 0.15:
                    p = [rng.choice(obs.sdepots)] + p
                elif r < 0.3:
                    p = p + [rng.choice(obs.edepots)]
                elif r < 0.4:
                    p = [rng.choice(obs.sdepots)] + p + [rng.choice(obs.edepots)]
                if rng.random() < 0.05:
                    rng.shuffle(p)  # mostly invalid path
                calls.append([kind] + p)
            elif kind in ("remove", "subpath", "conflict", "removable"):
                if rng.random() < 0.85:
                    i = rng.randrange(len(tour_nodes))
                    j = rng.randrange(i, len(tour_nodes)) if rng.random() < 0.9 else rng.randrange(len(tour_nodes))
                    a, b = tour_nodes[i], tour_nodes[j]
                else:
                    a, b = rng.choice(allnd), rng.choice(allnd)
                if kind == "conflict":
                    # conflict is called with segments of other tours: any valid chain endpoints
                    p = netobs.random_chain(rng, obs, ty, density=0.4)
                    if not p:
                        continue
                    a, b = p[0], p[-1]
                calls.append([kind, a, b])
            elif kind == "lnr":
                calls.append([kind, rng.choice(allnd)])
            elif kind == "rsd":
                calls.append([kind, rng.choice(obs.sdepots + ([rng.choice(allnd)] if rng.random() < 0.1 else []))])
            elif kind == "red":
                calls.append([kind, rng.choice(obs.edepots + ([rng.choice(allnd)] if rng.random() < 0.1 else []))])
            elif kind in ("pre", "sub"):
                calls.append([kind, rng.choice(tour_nodes if rng.random() < 0.9 else allnd)])
            else:
                calls.append([kind, tour_nodes[0]])
        # removals next to the ends of a tour (for a dummy tour the neighbours are activities, not depots)
        if len(tour_nodes) >= 3:
            for (a, b) in [(tour_nodes[1], tour_nodes[1]), (tour_nodes[-2], tour_nodes[-2]), (tour_nodes[1], tour_nodes[-2])]:
                if rng.random() < 0.6:
                    calls.append([rng.choice(["remove", "removable"]), a, b])
        tours.append({"ty": ty, "base": base, "dummy": dummy, "calls": calls})
    return tours


def encode_tours(tours):
    out = [str(len(tours))]
    for t in tours:
        out += [str(t["ty"]), "1" if t["dummy"] else "0", str(len(t["base"]))] + t["base"]
        out.append(str(len(t["calls"])))
        for c in t["calls"]:
            out += [c[0], str(len(c) - 1)] + c[1:]
    return " ".join(out)


def run_case(args):
    d, k, inst, seed = args
    rng = random.Random(seed * 1000003 + k)
    obs, st0 = netobs.observe(inst, d, "c%d" % k)
    if not obs.ok:
        return {"k": k, "inst": inst, "hstatus": "OK", "dstatus": "OK", "impl": [], "model": [], "tours": [], "skipped": True}
    tours = gen_tours(rng, obs)
    return run_tours(d, k, inst, obs, tours)


def run_tours(d, k, inst, obs, tours):
    cpath = os.path.join(d, "c%d.json" % k)
    with open(cpath, "w") as f:
        json.dump({"instance": inst, "tours": tours}, f)
    hout = os.path.join(d, "c%d.impl" % k)
    st = lib.run_harness("tour", cpath, hout)
    mpath = os.path.join(d, "c%d.min" % k)
    perm = lib.perm_of(lib.read_lines(hout), inst)
    with open(mpath, "w") as f:
        f.write(" ".join(str(x) for x in instgen.encode(inst, perm)) + "\n" + encode_tours(tours) + "\n")
    mout = os.path.join(d, "c%d.model" % k)
    st2 = lib.run_driver("tour", mpath, mout)
    return {"k": k, "inst": {"instance": inst, "tours": tours}, "hstatus": st, "dstatus": st2,
            "impl": lib.read_lines(hout), "model": lib.read_lines(mout), "tours": tours}


def split_blocks(lines):
    """Map (k, j) -> list of lines of that call (header first)."""
    blocks = {}
    cur = None
    for l in lines:
        p = l.split()
        if p and p[0] == "C":
            cur = (int(p[1]), int(p[2]))
            blocks[cur] = [l]
        elif p and p[0] == "T":
            cur = None
        elif cur is not None:
            blocks[cur].append(l)
    return blocks


def check_impl_with_spec(case, impl, model):
    """Property C12 on the implementation's results, against the reference semantics evaluated by the
    extracted spec (S lines), and tour caches against recomputation (X lines, C09 tour level)."""
    bad = []
    ib = split_blocks(impl)
    spec = {}
    exact = {}
    for l in model:
        p = l.split()
        if p and p[0] == "S":
            spec[(int(p[1]), int(p[2]))] = l
        elif p and p[0] == "X":
            exact[(int(p[1]), int(p[2]))] = l.split(" ", 3)[3]
    tours = case["tours"]
    for key, s in spec.items():
        blk = ib.get(key)
        if not blk:
            continue
        head = blk[0]
        sp = s.split()
        kind = sp[3]
        call = tours[key[0]]["calls"][key[1]]
        ctx = "tour %s dummy=%s call %s" % (tours[key[0]]["base"], tours[key[0]]["dummy"], call)
        if kind == "insert":
            if "-> OK" not in head:
                bad.append(("insert-fails", "%s: %s" % (ctx, head)))
                continue
            got_nodes = blk[1].split("nodes=")[1]
            got_removed = blk[2][len("removed "):]
            want_nodes = s.split("nodes=")[1].split(" removed=")[0]
            want_removed = s.split(" removed=")[1]
            if got_nodes != want_nodes or got_removed != want_removed:
                tie = " (dropped node is connectable)" if len(got_nodes.split()) < len(want_nodes.split()) else ""
                bad.append(("insert-ref" , "%s: got nodes=[%s] removed=[%s], reference nodes=[%s] removed=[%s]%s"
                            % (ctx, got_nodes, got_removed, want_nodes, want_removed, tie)))
        elif kind == "remove":
            want_ok = sp[4] == "OK"
            got_ok = "-> OK" in head
            if "PANIC" in head:
                bad.append(("remove-panic", "%s: %s" % (ctx, head)))
            elif want_ok != got_ok:
                bad.append(("remove-ref", "%s: got %s, reference %s" % (ctx, head, sp[4])))
            elif want_ok:
                got_nodes = blk[1].split("nodes=")[1] if blk[1].startswith("tour dummy") else None
                got_removed = blk[2][len("removed "):]
                want_nodes = s.split("nodes=")[1].split(" removed=")[0]
                want_removed = s.split(" removed=")[1]
                left = [n for n in want_nodes.split() if not n.startswith(("sdep_", "edep_"))]
                if got_nodes is None and left:
                    # "yields the tour without exactly those nodes": the tour may vanish only when no activity is left
                    bad.append(("remove-ref", "%s: the tour vanished although the reference keeps nodes=[%s]" % (ctx, want_nodes)))
                elif got_removed != want_removed or (got_nodes is not None and got_nodes != want_nodes):
                    bad.append(("remove-ref", "%s: got nodes=[%s] removed=[%s], reference nodes=[%s] removed=[%s]"
                                % (ctx, got_nodes, got_removed, want_nodes, want_removed)))
        elif kind == "removable":
            if "PANIC" in head:
                bad.append(("remove-panic", "%s: %s" % (ctx, head)))
            elif ("-> OK" in head) != (sp[4] == "OK"):
                bad.append(("remove-ref", "%s: check_removable gives %s, the documented refusals give %s" % (ctx, head, sp[4])))
        elif kind == "subpath":
            if sp[4] == "ANY":
                continue
            want_ok = sp[4] == "OK"
            if want_ok:
                want = " ".join(sp[5:])
                if "-> OK" not in head:
                    bad.append(("subpath-fails", "%s: sub-path of an existing segment: %s" % (ctx, head)))
                elif head.split("-> OK ")[1] != want:
                    bad.append(("subpath-ref", "%s: got %s, reference %s" % (ctx, head, want)))
            elif "-> OK" in head or "PANIC" in head:
                bad.append(("subpath-ref", "%s: got %s, reference ERR" % (ctx, head)))
    for key, x in exact.items():
        blk = ib.get(key)
        if not blk or "-> OK" not in blk[0] or len(blk) < 2 or not blk[1].startswith("tour dummy"):
            continue
        if blk[1] != x:
            call = tours[key[0]]["calls"][key[1]]
            bad.append(("tour-cache-inexact", "tour %s call %s: cached [%s] recomputed [%s]"
                        % (tours[key[0]]["base"], call, blk[1], x)))
    return bad


def features(case, impl):
    f = set()
    inst = case["instance"]
    if inst["parameters"]["shunting"]["minimalDuration"] == 0:
        f.add("zero_shunting")
    if inst.get("maintenanceSlots"):
        f.add("maintenance")
    for t in case.get("tours", []):
        if t["dummy"]:
            f.add("dummy_tour")
        for c in t["calls"]:
            if c[0] == "insert" and (c[1].startswith("sdep") or c[-1].startswith("edep")):
                f.add("path_with_depot")
    for l in impl:
        if l.startswith("removed ") and l != "removed -":
            f.add("nodes_dropped")
        if "ddist=INF" in l:
            f.add("overflow_depot_tour")
        if "-> ERR" in l:
            f.add("refused")
    return f


def exhaustive_instances():
    """All networks of a small family: 2 locations, one type, one depot per location (ample), trips of one grid step
    between the two locations starting at one of 4 grid points (8 possible trips), every subset of at most 4 trips,
    minimal shunting in {0, 600}, dead-head time in {0, 600}."""
    import itertools
    grid = 600
    possible = [(o, t) for o in (0, 1) for t in range(4)]
    out = []
    for k in range(1, 5):
        for sub in itertools.combinations(possible, k):
            for shunt in (0, 600):
                for dh in (0, 600):
                    inst = {
                        "vehicleTypes": [{"id": "T0", "capacity": 100, "seats": 50}],
                        "locations": [{"id": "L0"}, {"id": "L1"}],
                        "depots": [{"id": "dep0", "location": "L0", "capacity": 50, "allowedTypes": [{"vehicleType": "T0"}]},
                                   {"id": "dep1", "location": "L1", "capacity": 50, "allowedTypes": [{"vehicleType": "T0"}]}],
                        "routes": [{"id": "r0", "vehicleType": "T0", "segments": [
                            {"id": "r0s", "order": 0, "origin": "L0", "destination": "L1", "distance": 1000, "duration": grid}]},
                            {"id": "r1", "vehicleType": "T0", "segments": [
                                {"id": "r1s", "order": 0, "origin": "L1", "destination": "L0", "distance": 1000, "duration": grid}]}],
                        "departures": [{"id": "d%d" % n, "route": "r%d" % o, "segments": [
                            {"id": "d%d_s" % n, "routeSegment": "r%ds" % o, "departure": instgen.iso(3600 + grid * t),
                             "passengers": 10, "seated": 5}]} for n, (o, t) in enumerate(sub)],
                        "deadHeadTrips": {"indices": ["L0", "L1"], "durations": [[0, dh], [dh, 0]], "distances": [[0, 500], [500, 0]]},
                        "parameters": {"shunting": {"minimalDuration": shunt, "deadHeadTripDuration": 0},
                                       "costs": {"staff": 1, "serviceTrip": 2, "deadHeadTrip": 5, "idle": 1}},
                    }
                    out.append(inst)
    return out


def all_chains(obs, nodes):
    """every connectable chain (in time order) over the given nodes"""
    nodes = sorted(nodes, key=lambda n: (obs.start_key(n), n))
    chains = []

    def ext(chain, rest):
        for i, n in enumerate(rest):
            if not chain or n in obs.reach.get(chain[-1], set()):
                c = chain + [n]
                chains.append(c)
                ext(c, rest[i + 1:])
    ext([], nodes)
    return chains


def run_exhaustive_case(args):
    d, k, inst = args
    obs, st0 = netobs.observe(inst, d, "x%d" % k)
    if not obs.ok:
        return None
    trips = list(obs.svc.get(0, []))
    chains = all_chains(obs, trips)
    sd, ed = obs.sdepots[0], obs.edepots[-2] if len(obs.edepots) > 1 else obs.edepots[0]
    tours = []
    for c in chains:
        for dummy in (False, True):
            tour_nodes = c if dummy else [sd] + c + [ed]
            calls = []
            for p in chains:
                calls.append(["insert"] + p)
                calls.append(["insert", obs.sdepots[1]] + p + [obs.edepots[0]])
            for i in range(len(tour_nodes)):
                for j in range(i, len(tour_nodes)):
                    calls.append(["remove", tour_nodes[i], tour_nodes[j]])
                    calls.append(["subpath", tour_nodes[i], tour_nodes[j]])
            tours.append({"ty": 0, "base": [sd] + c + [ed], "dummy": dummy, "calls": calls})
    return run_tours(d, 100000 + k, inst, obs, tours)


def main(tier, seed):
    t0 = time.time()
    proof = lib.check_property_file(PID)
    lib.build_coq()
    lib.build_driver()
    lib.build_harness()
    n = lib.ncases(180 if tier == "quick" else 12000)
    rng = random.Random(seed)
    d = lib.casedir(PID)
    insts = [c for c in lib.load_corpus_cases(PID)]
    gen = [instgen.gen_instance(rng, rng.choice([None, None, {"zero_shunting": True}])) for _ in range(n)]
    results = []
    results += lib.pmap(lambda a: run_corpus_case(d, *a), list(enumerate(insts)))
    results += lib.pmap(run_case, [(d, 1000 + k, inst, seed) for k, inst in enumerate(gen)])
    nexh = 0
    if tier == "thorough" and not os.environ.get("VERIF_REPLAY"):
        xs = exhaustive_instances()
        xr = [r for r in lib.pmap(run_exhaustive_case, [(d, k, inst) for k, inst in enumerate(xs)]) if r]
        nexh = len(xr)
        results += xr
    results = [r for r in results if not r.get("skipped")]
    ncalls = sum(len(t["calls"]) for r in results for t in r["tours"])
    hist = {}
    for r in results:
        for l in r.get("impl", []):
            p = l.split()
            if p and p[0] == "C" and "->" in p:
                key = "%s->%s" % (p[3], p[p.index("->") + 1])
                hist[key] = hist.get(key, 0) + 1
    return lib.conclude_diff(PID, tier, seed, t0, proof, results,
                             None, features, strip_model_prefixes=("S ", "X "),
                             what="Tour operations on tours taken from Schedule::tour_of: insert_path, remove, sub_path, "
                                  "conflict, latest_not_reaching_node, check_removable, replace_*_depot, overheads, "
                                  "maintenance_counter (node lists and the five caches)",
                             extra_cov={"tour_calls": ncalls, "operation_outcomes": hist,
                                        "exhaustive_family_instances": nexh,
                                        "exhaustive": False,
                                        "exhaustive_note": "thorough tier enumerates completely the family described in "
                                        "exhaustive_instances(): all tours (real and dummy), all chains as inserted paths "
                                        "(with and without depots), all segments"}, check_pair=check_impl_with_spec)


def run_corpus_case(d, k, case):
    obs, st0 = netobs.observe(case["instance"], d, "k%d" % k)
    return run_tours(d, k, case["instance"], obs, case["tours"])
