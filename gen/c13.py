from . import opsfam


def main(tier, seed):
    return opsfam.main("C13", tier, seed, "public getters of the schedule before and after each modification: documented effect "
                                          "(check_op), frame, formation order, immutability of the argument schedule")
