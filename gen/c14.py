"""C14 — start solution is an optimum of the per-type covering circulation."""
import json
import os
import random
import subprocess
import time

from . import instgen, lib, netobs, solve, solvefam

PID = "C14"


def parse_pairs(lines, planning):
    pairs = {}
    for l in lines:
        p = l.split()
        if p[0] == "pair":
            kv = dict(x.split("=") for x in p[3:])
            dht = planning if kv["dht"] == "INF" else int(kv["dht"])
            idle = 0 if kv["idle"] in ("INF", "PANIC") else int(kv["idle"])
            pairs[p[1] + ">" + p[2]] = {"dht": dht, "idle": idle}
    return pairs


def run_one(args):
    d, k, inst = args
    cpath = os.path.join(d, "c%d.json" % k)
    with open(cpath, "w") as f:
        json.dump({"instance": inst}, f)
    hout = os.path.join(d, "c%d.impl" % k)
    st = lib.run_harness("mcf", cpath, hout, timeout=60)
    impl = lib.read_lines(hout)
    res = {"inst": inst, "k": k, "hstatus": st, "impl": impl, "status": "OK" if "mcf OK" in impl else "NOANSWER",
           "js": None, "chk": [], "dstatus": "OK", "flow": {}, "netdiff": None, "indep": None, "coupled": False,
           "tours_match": True, "slotdiff": None}
    if st != "OK" or "mcf OK" not in impl:
        if "mcf PANIC" in impl:
            res["status"] = "PANIC"
        return res
    perm = lib.perm_of(impl, inst)
    blk = [l for l in impl if l.split()[0] in ("MCFTYPE", "SLOT", "EDGE", "DSTEP", "FTOUR", "ENDMCF")]
    mpath = os.path.join(d, "c%d.min" % k)
    with open(mpath, "w") as f:
        f.write(" ".join(str(x) for x in instgen.encode(inst, perm)) + "\n" + "\n".join(blk) + "\n")
    mout = os.path.join(d, "c%d.chk" % k)
    res["dstatus"] = lib.run_driver("flowcheck", mpath, mout)
    out = lib.read_lines(mout)
    me = sorted(" ".join(l.split()[1:]) for l in out if l.startswith("MEDGE"))
    ie = []
    cur = None
    slots = {}
    ftours = {}
    for l in impl:
        p = l.split()
        if p[0] == "MCFTYPE":
            cur = p[1]
            slots[cur] = {}
            ftours[cur] = []
        elif p[0] == "SLOT":
            slots[cur][p[1]] = int(p[2])
        elif p[0] == "EDGE":
            ie.append(cur + " " + " ".join(p[1:6]))
        elif p[0] == "FTOUR":
            ftours[cur].append(" ".join(p[1:]))
    ie.sort()
    # the slot distribution is a function of the model (SlotDist.v, f32 arithmetic of F32.v): exact comparison
    mslots = {}
    for l in out:
        p = l.split()
        if p[0] == "MSLOT":
            mslots.setdefault(p[1], {})[p[2]] = int(p[3])
    if "MSLOTS OK" not in out:
        res["slotdiff"] = "the modelled distribution panics, the code's does not"
    elif {t: v for t, v in mslots.items() if v} != {t: v for t, v in slots.items() if v}:
        res["slotdiff"] = "model %s impl %s" % (json.dumps(mslots, sort_keys=True)[:300], json.dumps(slots, sort_keys=True)[:300])
    if me != ie:
        a = [x for x in me if x not in ie][:3]
        b = [x for x in ie if x not in me][:3]
        res["netdiff"] = "model-only %s impl-only %s" % (a, b)
    res["decode"] = {}
    for l in out:
        p = l.split()
        if p[0] == "DECODE":
            res["decode"][p[1]] = dict(x.split("=") for x in p[2:])
    for l in out:
        p = l.split()
        if p[0] == "FLOW":
            res["flow"][p[1]] = dict(x.split("=") for x in p[2:])
    # tours of the returned schedule = decoded tours (as multisets per type)
    sched = {}
    for l in impl:
        p = l.split()
        if p[0] == "V":
            sched.setdefault(p[2], []).append(" ".join(p[10:]))
    # independent optimum from the net observations of a separate run
    obs, st0 = netobs.observe(inst, d, "n%d" % k)
    nlines = lib.read_lines(os.path.join(d, "n%d.net.impl" % k))
    planning = 0
    for l in nlines:
        if l.startswith("planning "):
            planning = int(l.split()[1])
    coupled = False
    if obs.ntypes > 1:
        for kk, dep in obs.depots.items():
            if obs.overflow and kk == obs.overflow[0]:
                continue
            if int(dep["total"]) < sum(int(c) for c in dep["caps"].split(",")):
                coupled = True
    res["coupled"] = coupled
    for ty in ftours:
        if not coupled and sorted(sched.get(ty, [])) != sorted(ftours[ty]):
            res["tours_match"] = False
    # slot distribution is per process deterministic given the same input -> reuse the recorded one (node ids
    # coincide between runs when depots are given; with default depots the depot indices are permuted, which
    # does not affect activity ids)
    # the tracks of a slot are allotted to the types: together never more than the slot has, only to slots
    over = []
    for m in sorted({m for t in slots.values() for m in t}):
        tot = sum(t.get(m, 0) for t in slots.values())
        tracks = obs.nodes.get(m, {}).get("tracks")
        if tracks in (None, "-") or tot > int(tracks):
            over.append("%s: allotted %d of %s tracks" % (m, tot, tracks))
    res["slot_over"] = over
    pr = inst["parameters"]
    data = {"ntypes": obs.ntypes, "nodes": obs.nodes, "reach": {a: sorted(b) for a, b in obs.reach.items()},
            "svc": {str(t): v for t, v in obs.svc.items()}, "slots": slots, "req": obs.req, "maxform": obs.maxform,
            "depots": {str(kk): v for kk, v in obs.depots.items()}, "pairs": parse_pairs(nlines, planning),
            "params": {"service": pr["costs"]["serviceTrip"], "maint": pr["costs"].get("maintenance", 0) or 0,
                       "dh": pr["costs"]["deadHeadTrip"], "idle": pr["costs"]["idle"]},
            "type_limits": [t.get("maximalFormationCount") for t in inst["vehicleTypes"]]}
    try:
        p = subprocess.run(["python3-vt", os.path.join(lib.VERIF, "gen", "indep_flow.py")], input=json.dumps(data).encode(),
                           stdout=subprocess.PIPE, stderr=subprocess.PIPE, timeout=120)
        if p.returncode == 0:
            res["indep"] = json.loads(p.stdout.decode())
        else:
            res["indep_err"] = p.stderr.decode()[-400:]
    except subprocess.TimeoutExpired:
        res["indep_err"] = "timeout"
    return res


def failures(pid, inst, r):
    bad = []
    if r["status"] != "OK":
        return bad
    if r["dstatus"] != "OK":
        return [("checker-crash", r["dstatus"][:300])]
    if r["netdiff"]:
        bad.append(("flow-network-differs-from-model", r["netdiff"]))
    for ty, kv in (r.get("decode") or {}).items():
        if kv["order_ok"] != "true":
            bad.append(("decode-order-not-the-flow", "type %s: the recorded order of entering flow units is not the flow" % ty))
        elif kv["model"] != "equal":
            bad.append(("decode-differs-from-model", "type %s: Decode.v replayed with the recorded order gives %s" % (ty, kv["model"])))
    if r.get("slotdiff"):
        bad.append(("slot-distribution-differs-from-model", r["slotdiff"]))
    if r.get("slot_over"):
        bad.append(("slots-allotted-beyond-tracks", "; ".join(r["slot_over"])))
    for ty, kv in r["flow"].items():
        if kv["spawn_model"] != kv["spawn_impl"]:
            bad.append(("flow-network-differs-from-model", "spawning cost model %s impl %s" % (kv["spawn_model"], kv["spawn_impl"])))
        if kv["feasible"] != "true":
            bad.append(("flow-infeasible", "type %s: the recorded flow violates bounds or conservation" % ty))
        if kv["decomposition"] != "true":
            bad.append(("flow-not-decomposed", "type %s: the decoded tours do not use every flow unit exactly once" % ty))
        if kv["certificate"] != "true":
            bad.append(("flow-not-optimal", "type %s: no potentials certify optimality of the recorded flow" % ty))
        if r["indep"] and r["indep"].get(ty) is not None and not r["coupled"]:
            spawn = int(kv["spawn_impl"])
            n = int(kv["ntours"])
            op = int(kv["cost"]) - spawn * n
            want = r["indep"][ty]
            if [n, op] != want:
                bad.append(("start-not-optimal", "type %s: start solution uses (vehicles, operating cost) = (%d, %d), "
                                                 "independent optimum %s; spawning cost %d" % (ty, n, op, want, spawn)))
    if not r["tours_match"]:
        bad.append(("schedule-differs-from-decoded-tours", "the tours of the returned schedule are not the decoded tours"))
    if r.get("indep_err"):
        bad.append(("independent-solver-failed", r["indep_err"]))
    return bad


def features(inst, r):
    f = solvefam.features(inst, r)
    if r.get("coupled"):
        f.add("types_coupled_by_depot_total")
    for ty, kv in r.get("flow", {}).items():
        if int(kv.get("ntours", 0)) > 1:
            f.add("several_vehicles")
        if int(kv.get("lower_total", 0)) > int(kv.get("ntours", 0)):
            f.add("vehicles_shared_between_trips")
    return f


def main(tier, seed):
    t0 = time.time()
    proof = lib.check_property_file(PID)
    lib.build_coq()
    lib.build_driver()
    lib.build_harness()
    n = lib.ncases(180 if tier == "quick" else 12000)
    rng = random.Random(seed * 7919 + 14)
    d = lib.casedir(PID)
    profiles = [{"ntypes": 1, "positive_costs": True}, {"ntypes": 1, "positive_costs": True, "slots": "some"},
                {"depots": "ample", "positive_costs": True}, {"depots": "absent", "positive_costs": True},
                {"positive_costs": True, "zero_shunting": True}, {"ntypes": 1},
                {"ntypes": 1, "zero_costs": True, "depots": "ample"}, {"zero_costs": True, "depots": "absent"}]
    insts = lib.load_corpus(PID) + [instgen.gen_instance(rng, rng.choice(profiles)) for _ in range(n)]
    # several types competing for many-track slots, with maximal distances that service distances are exact multiples of
    # (the f32 counter landing exactly on 1.0: seeded C14j); own random stream
    from . import cone
    srng = random.Random(seed * 131 + 14)
    for _ in range(40 if tier == "quick" else 1500):
        pr = cone.slot_profile(srng)
        pr["positive_costs"] = True
        insts.append(instgen.gen_instance(srng, pr))
    results = lib.pmap(run_one, [(d, k, inst) for k, inst in enumerate(insts)])
    return solvefam.conclude(PID, tier, seed, t0, proof, results,
                             "flow network, flow and decoded tours recorded in solve_for_vehicle_type (hook) vs the model's "
                             "network; feasibility, decomposition, potentials certificate (checked by the extracted "
                             "check_optimal); (vehicles, operating cost) vs an independent networkx optimum",
                             failures_fn=failures, features_fn=features,
                             extra_cov={"independent_optima_compared": sum(1 for r in results if r.get("indep") and not r.get("coupled")),
                                        "decodings_replayed_on_Decode_v": sum(len(r.get("decode") or {}) for r in results),
                                        "decoded_flow_units": sum(int(kv.get("steps", 0)) for r in results for kv in (r.get("decode") or {}).values()),
                                        "slot_distributions_compared": sum(1 for r in results if r.get("status") == "OK"),
                                        "types_with_allotted_slots": sum(1 for r in results for l in r.get("impl", []) if l.startswith("SLOT "))})
