"""C15 — rotation-cycle bookkeeping is exact and its optimisation never worsens."""
import json
import os
import random
import time

from . import instgen, lib, netobs, solve

PID = "C15"


def gen_case(rng, obs, tier, nveh=None):
    ty = rng.randrange(max(1, obs.ntypes))
    sds = obs.usable_start_depots(ty)
    if not sds:
        return None
    nveh = nveh or rng.choice([2, 3, 3, 4, 5])
    paths = []
    caps = {}
    used = {}
    snode_depot = {dd["snode"]: k for k, dd in obs.depots.items()}

    def pick_start():
        cands = []
        for sn in sds:
            k = snode_depot[sn]
            dd = obs.depots[k]
            cap_t = int(dd["caps"].split(",")[ty])
            if used.get((k, ty), 0) < cap_t and sum(v for (kk, _), v in used.items() if kk == k) < int(dd["total"]):
                cands.append(sn)
        if not cands:
            return None
        sn = rng.choice(cands)
        used[(snode_depot[sn], ty)] = used.get((snode_depot[sn], ty), 0) + 1
        return sn
    for _ in range(nveh):
        chain = netobs.random_chain(rng, obs, ty, density=rng.choice([0.3, 0.5, 0.8]))
        if not chain:
            continue
        # formation limits and track counts: keep each node's use within limits (spawn must succeed)
        okc = []
        for n in chain:
            lim = obs.maxform.get(n)
            if n.startswith("main"):
                lim = int(obs.nodes[n]["tracks"])
            if lim is None or caps.get(n, 0) < lim:
                okc.append(n)
        chain2 = []
        for n in okc:
            if not chain2 or n in obs.reach.get(chain2[-1], set()):
                chain2.append(n)
        if not chain2:
            continue
        for n in chain2:
            caps[n] = caps.get(n, 0) + 1
        sn = pick_start()
        if sn is None:
            continue
        paths.append([sn] + chain2 + [rng.choice(obs.edepots)])
    if len(paths) < 2:
        return None
    # depot capacities: count starts per depot and fall back to the overflow depot when exceeded
    vs = ["veh_%d" % k for k in range(len(paths))]
    tops = []
    ncyc = len(paths)
    for _ in range(rng.choice([4, 6, 8, 12])):
        kind = rng.choice(["move", "move", "move", "remove", "addown", "addend", "update", "update", "update2",
                           "update2", "threeopt", "succ", "new"])
        if kind == "move":
            tops.append(["move", rng.choice(vs), rng.randrange(ncyc + 1)])
        elif kind == "remove":
            tops.append(["remove", rng.choice(vs)])
        elif kind == "addown":
            tops.append(["addown", rng.choice(vs)])
            ncyc += 1
        elif kind == "addend":
            tops.append(["addend", rng.choice(vs), rng.randrange(ncyc + 1)])
        elif kind == "update":
            if rng.random() < 0.5:
                tops.append(["update", rng.choice(vs), "rsd", rng.choice(sds + obs.sdepots)])
            else:
                tops.append(["update", rng.choice(vs), "red", rng.choice(obs.edepots)])
        elif kind == "update2" and len(vs) >= 2:
            # two vehicles updated in one schedule operation (mostly cycle neighbours after moves): the first one's end
            # depot and the second one's start depot, i.e. the facing depots of a cycle edge
            a, b = rng.sample(vs, 2)
            tops.append(["move", a, 0])
            tops.append(["move", b, 0])
            # listed in either order: predecessor first (the second sees the first through updated_tours as its
            # predecessor) or successor first (the second sees the first as its successor) — seeded C09e needs the latter
            if rng.random() < 0.5:
                tops.append(["update2", a, rng.choice(["red", "red", "rsd"]), None, b, rng.choice(["rsd", "rsd", "red"]), None])
            else:
                tops.append(["update2", b, rng.choice(["rsd", "rsd", "red"]), None, a, rng.choice(["red", "red", "rsd"]), None])
            for k in (3, 6):
                tops[-1][k] = rng.choice(obs.edepots) if tops[-1][k - 1] == "red" else rng.choice(sds + obs.sdepots)
        elif kind == "update2":
            continue
        elif kind == "threeopt":
            i = rng.randrange(0, 3)
            j = rng.randrange(i + 1, i + 3)
            k = rng.randrange(j + 1, j + 3)
            tops.append(["threeopt", rng.randrange(ncyc), i, j, k])
        elif kind == "succ":
            tops.append(["succ", rng.choice(vs)])
        else:
            tops.append(["new"])
    # 3-opt needs one cycle with at least three vehicles: gather all vehicles in cycle 0, then reorder with admissible
    # index triples (the random triples above are almost never admissible)
    if len(vs) >= 3 and rng.random() < 0.7:
        tops.append(["new"])
        for v in vs:
            tops.append(["move", v, 0])
        for _ in range(rng.choice([2, 3, 4])):
            i, j, k = sorted(rng.sample(range(len(vs)), 3))
            tops.append(["threeopt", 0, i, j, k])
            if rng.random() < 0.3:
                tops.append(["update", rng.choice(vs), "red", rng.choice(obs.edepots)])
    return {"ty": ty, "paths": paths, "tops": tops}


def gen_opt_case(rng, obs, tier):
    """cases for the transition optimiser: more vehicles, no tour replacement, the optimiser started from the greedy
    transition, from one-cycle-per-vehicle, or after random moves; several runs in a row (the second from a local optimum)"""
    c = gen_case(rng, obs, tier, nveh=rng.choice([3, 4, 5, 6, 7, 8]))
    if c is None:
        return None
    vs = ["veh_%d" % k for k in range(len(c["paths"]))]
    tops = []
    r = rng.random()
    if r < 0.4:
        tops.append(["new"])
    for _ in range(rng.choice([0, 0, 1, 2, 4])):
        tops.append(["move", rng.choice(vs), rng.randrange(len(vs))])
    tops.append(["optimise"])
    if rng.random() < 0.5:
        for _ in range(rng.choice([1, 2, 3])):
            tops.append(["move", rng.choice(vs), rng.randrange(len(vs))])
        tops.append(["optimise"])
    if rng.random() < 0.3:
        tops.append(["optimise"])
    c["tops"] = tops
    return c


def exhaustive_cases(rng, obs, maxlen=3):
    """C15's quantifier: "exhaustively for all operation sequences up to a small bound on small vehicle sets": three
    vehicles, every sequence of at most [maxlen] operations over the alphabet move / remove / add-to-own-cycle /
    add-at-the-end / create (new_fast) / optimise"""
    base = None
    for _ in range(20):
        base = gen_case(rng, obs, "thorough", nveh=3)
        if base and len(base["paths"]) == 3:
            break
    if not base or len(base["paths"]) != 3:
        return []
    vs = ["veh_0", "veh_1", "veh_2"]
    alphabet = [["new"], ["optimise"]]
    for v in vs:
        alphabet.append(["remove", v])
        alphabet.append(["addown", v])
        for k in range(4):
            alphabet.append(["move", v, k])
            alphabet.append(["addend", v, k])
    seqs = [[]]
    out = []
    for _ in range(maxlen):
        seqs = [q + [a] for q in seqs for a in alphabet]
        out += seqs
    return [{"ty": base["ty"], "paths": base["paths"], "tops": q} for q in out]


def run_exhaustive(args):
    d, k, inst, c = args
    return run_trans(d, k, inst, c)


def encode_case(c):
    out = [str(c["ty"]), str(len(c["paths"]))]
    for p in c["paths"]:
        out += [str(len(p))] + p
    out.append(str(len(c["tops"])))
    for o in c["tops"]:
        out += [o[0], str(len(o) - 1)] + [str(x) for x in o[1:]]
    return " ".join(out)


def run_case(args):
    d, k, inst, seed, tier = args
    rng = random.Random(seed * 1000003 + k)
    obs, st0 = netobs.observe(inst, d, "c%d" % k)
    if not obs.ok:
        return None
    c = gen_opt_case(rng, obs, tier) if k % 3 == 2 else gen_case(rng, obs, tier)
    if c is None:
        return None
    if k % 3 != 2 and rng.random() < 0.6:
        inst = tune_limit(d, k, inst, c, rng)
    return run_trans(d, k, inst, c)


def tune_limit(d, k, inst, c, rng):
    """Cases that gather all vehicles in one cycle and reorder it: choose maximalDistance so that the cycle's counter sits
    a little above zero before the first 3-opt, so that reorderings cross zero in both directions (seeded C15f: the
    violation total after replace_cycle when a cycle goes from above the limit to strictly below it). A first run with
    maximalDistance 0 reads the cycle's total distance off its counter."""
    tops = c["tops"]
    first = next((j for j, o in enumerate(tops) if o[0] == "threeopt" and j > 0 and any(x[0] == "new" for x in tops[:j])
                  and tops[j - 1][0] == "move"), None)
    m = sum(1 for p in c["paths"] if any(str(n).startswith("main_") for n in p))
    if first is None or m == 0:
        return inst
    i0 = json.loads(json.dumps(inst))
    i0["parameters"]["maintenance"] = {"maximalDistance": 0}
    cpath = os.path.join(d, "c%d.pre.json" % k)
    with open(cpath, "w") as f:
        json.dump({"instance": i0, "ty": c["ty"], "paths": c["paths"], "tops": tops[:first]}, f)
    hout = os.path.join(d, "c%d.pre.impl" % k)
    if lib.run_harness("trans", cpath, hout) != "OK":
        return inst
    cy = [l for l in lib.read_lines(hout) if l.startswith("CY 0 ")]
    if not cy:
        return inst
    total = int(cy[-1].split()[2])
    if total <= 0:
        return inst
    i2 = json.loads(json.dumps(inst))
    i2["parameters"]["maintenance"] = {"maximalDistance": max(1, (total - rng.randrange(1, 6000)) // m)}
    return i2


def run_trans(d, k, inst, c):
    case = {"instance": inst, "ty": c["ty"], "paths": c["paths"], "tops": c["tops"]}
    cpath = os.path.join(d, "c%d.json" % k)
    with open(cpath, "w") as f:
        json.dump(case, f)
    hout = os.path.join(d, "c%d.impl" % k)
    st = lib.run_harness("trans", cpath, hout)
    impl = lib.read_lines(hout)
    perm = lib.perm_of(impl, inst)
    mpath = os.path.join(d, "c%d.min" % k)
    blocks = [l for l in impl if l.split()[0] in ("TR", "CY", "LK", "EM", "TS", "CS", "LS", "ES")] if impl else []
    # the optimiser's recorded steps are input of the model's replay, not observations to compare line by line
    impl = [l for l in impl if l.split()[0] not in ("TS", "CS", "LS", "ES")]
    with open(mpath, "w") as f:
        f.write(" ".join(str(x) for x in instgen.encode(inst, perm)) + "\n" + encode_case(c) + "\nIMPL\n" +
                "\n".join(blocks) + "\n")
    mout = os.path.join(d, "c%d.model" % k)
    st2 = lib.run_driver("trans", mpath, mout)
    return {"k": k, "inst": case, "hstatus": st, "dstatus": st2, "impl": impl, "model": lib.read_lines(mout)}


def check_pair(case, impl, model):
    bad = []
    cur = None
    for l in model:
        if l.startswith("TOP "):
            cur = l
        elif l.startswith("ICHK ") and l not in ("ICHK ok", "ICHK skip"):
            bad.append(("tinv-impl-%s" % l.split()[1],
                        "after [%s] the implementation's transition violates TInv clauses %s (1501 members, 1502 lookup, "
                        "1503 empty-cycle list, 1504 cycle counter, 1505 totals)" % (cur, l.split()[1])))
            break
    if "spawn FAIL" in impl:
        return []
    return bad


def features(case, impl):
    f = set()
    for l in impl:
        p = l.split()
        if p[0] == "TOP" and len(p) > 2:
            f.add("op_" + p[2])
        if p[0] == "TOP" and p[-1] == "PANIC":
            f.add("panic_outcome")
        if p[0] == "EM" and p[1] != "0":
            f.add("empty_cycle_listed")
        if p[0] == "CY" and int(p[3]) >= 3:
            f.add("cycle_len_ge_3")
        if p[0] == "VI" and "self=10000000" in l:
            f.add("overflow_depot_transfer")
    return f


def op_hist(results):
    """distribution of (operation kind, outcome) over the implementation's runs: a kind whose calls are all PANIC / NOOP
    is not being compared"""
    h = {}
    for r in results:
        for l in r.get("impl", []):
            p = l.split()
            if p and p[0] == "TOP" and len(p) > 3:
                k = "%s->%s" % (p[2], p[-1])
                h[k] = h.get(k, 0) + 1
    return h


def main(tier, seed):
    t0 = time.time()
    proof = lib.check_property_file(PID)
    lib.build_coq()
    lib.build_driver()
    lib.build_harness()
    n = lib.ncases(220 if tier == "quick" else 15000)
    rng = random.Random(seed)
    d = lib.casedir(PID)
    gen = [instgen.gen_instance(rng, {"slots": rng.choice(["some", "some", "none"]),
                                      "depots": rng.choice(["ample", "absent", "ample", "scarce"]),
                                      "maxdist": rng.choice(["small", "mid", "large", "absent", "spread", "spread", "spread"])}) for _ in range(n)]
    results = []
    for k, c in enumerate(lib.load_corpus_cases(PID)):
        results.append(run_trans(d, k, c["instance"], c))
    results += [r for r in lib.pmap(run_case, [(d, 1000 + k, inst, seed, tier) for k, inst in enumerate(gen)]) if r]
    nexh = 0
    if tier == "thorough" and not os.environ.get("VERIF_REPLAY"):
        xrng = random.Random(seed * 31 + 5)
        for j in range(2):
            inst = instgen.gen_instance(xrng, {"slots": "some", "depots": "ample", "maxdist": "small", "ntypes": 1})
            obs, _ = netobs.observe(inst, d, "x%d" % j)
            if not obs.ok:
                continue
            xs = exhaustive_cases(xrng, obs)
            nexh += len(xs)
            results += [r for r in lib.pmap(run_exhaustive, [(d, 200000 + j * 100000 + k, inst, c) for k, c in enumerate(xs)]) if r]
    # plus: every transition produced in the solve pipeline (stage snapshots) must satisfy the invariant and the
    # optimiser must not worsen (violation, counter) nor change the vehicle set
    pres = lib.pmap(lambda a: solve.run_solve(d, "p%d" % a[0], a[1]),
                    list(enumerate([instgen.gen_instance(rng, {"slots": "some", "maxdist": rng.choice(["small", "mid"]),
                                                               "ndeps": rng.choice([4, 5, 6])})
                                    for _ in range(40 if tier == "quick" else 2000)])))
    extra_bad = []
    pipeline_transitions = 0
    for r in pres:
        snaps = {}
        for (label, blk) in solve.sched_blocks(r["impl"]):
            tl = {}
            for l in blk:
                p = l.split()
                if p[0] == "T":
                    tl[p[1]] = (int(p[2]), int(p[3]))
                    pipeline_transitions += 1
            snaps[label] = tl
        for (label, chk) in r["chk"]:
            ex = chk.get("exact", "ok").split(",")
            inv = chk.get("inv", "ok").split(",")
            if "905" in ex or "906" in ex or "1006" in inv:
                extra_bad.append(("pipeline-transition-inexact", "stage %s: exact=%s inv=%s" % (label, chk.get("exact"), chk.get("inv"))))
        if "ls_result" in snaps and "opt" in snaps:
            for ty, (v0, c0) in snaps["ls_result"].items():
                v1, c1 = snaps["opt"].get(ty, (None, None))
                if v1 is None or (v1, c1) > (v0, c0):
                    extra_bad.append(("optimiser-worsens", "type %s: (violation, counter) %s -> %s" % (ty, (v0, c0), (v1, c1))))
    rc = lib.conclude_diff(PID, tier, seed, t0, proof, results, None, features,
                           strip_model_prefixes=("TINV ", "ICHK ", "TOS "),
                           what="Transition after each rotation-cycle operation: cycles, counters, totals, successor, "
                                "lookup table and empty-cycle list (hook); TInv on model and implementation states",
                           extra_cov={"operation_outcomes": op_hist(results), "exhaustive_sequences": nexh,
                                      "exhaustive_note": "thorough tier: all sequences of <= 3 operations over three "
                                      "vehicles (alphabet of 32 operations) on two instances",
                                      "pipeline_runs": len(pres), "pipeline_transitions_checked": pipeline_transitions,
                                      "pipeline_failures": len(extra_bad)},
                           check_pair=check_pair, extra_violations=extra_bad)
    return rc
