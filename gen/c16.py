from . import solvefam


def main(tier, seed):
    return solvefam.main("C16", tier, seed)
