"""C17 — loaded network faithfully encodes the instance and its reachability."""
import json
import os
import random
import time

from . import instgen, lib

PID = "C17"


def perm_from_obs(lines, inst):
    """Depot index -> location, read from the implementation's depot lines (oracle for HashMap order)."""
    if inst.get("depots") is not None:
        return None
    perm = []
    for l in lines:
        if l.startswith("depot "):
            parts = dict(p.split("=") for p in l.split()[2:])
            if parts["loc"] != "N":
                perm.append(int(parts["loc"]))
    return perm


def run_case(args):
    d, k, inst = args
    cpath = os.path.join(d, "c%s.json" % k)
    with open(cpath, "w") as f:
        json.dump({"instance": inst}, f)
    hout = os.path.join(d, "c%s.impl" % k)
    st = lib.run_harness("net", cpath, hout)
    impl = lib.read_lines(hout)
    perm = lib.perm_of(impl, inst)
    mpath = os.path.join(d, "c%s.min" % k)
    with open(mpath, "w") as f:
        f.write(" ".join(str(x) for x in instgen.encode(inst, perm)) + "\n")
    mout = os.path.join(d, "c%s.model" % k)
    st2 = lib.run_driver("net", mpath, mout)
    model = lib.read_lines(mout)
    return {"k": k, "inst": inst, "hstatus": st, "dstatus": st2, "impl": impl, "model": model}


def check_impl(inst, impl):
    """Executable reading of C17 on the implementation's own observations: enumerations are exactly the
    type's reachable nodes; returns list of (what, detail)."""
    bad = []
    reach = {}
    svc = {}
    maint = []
    sdep = []
    edep = []
    for l in impl:
        p = l.split()
        if p[0] == "reach":
            reach[p[1]] = set(p[3:])
        elif p[0] == "svc":
            svc[p[1]] = p[3:]
        elif p[0] == "maint":
            maint = p[2:]
        elif p[0] == "sdepots":
            sdep = p[2:]
        elif p[0] == "edepots":
            edep = p[2:]
    for l in impl:
        p = l.split()
        if p[0] in ("succ", "pred"):
            ty, n, got = p[1], p[2], p[4:]
            tn = set(svc.get(ty, [])) | set(maint) | set(sdep) | set(edep)
            if p[0] == "succ":
                want = {m for m in tn if m in reach.get(n, set())}
            else:
                want = {m for m in tn if n in reach.get(m, set())}
            if len(got) != len(set(got)):
                bad.append((p[0] + "-duplicate", l))
            if set(got) != want:
                bad.append((p[0] + "-inexact", "%s missing=%s extra=%s" % (l, sorted(want - set(got)), sorted(set(got) - want))))
    # overflow depot must be able to host every vehicle; default depots are unlimited
    req, maxform, tracks = {}, {}, 0
    depots, overflow = {}, None
    for l in impl:
        p = l.split()
        if p[0] == "req":
            req[p[2]] = int(p[3])
        elif p[0] == "maxform":
            maxform[p[1]] = None if p[2] == "-" else int(p[2])
        elif p[0] == "node" and "kind=M" in l:
            kv = dict(x.split("=") for x in p[2:])
            tracks += int(kv["tracks"])
        elif p[0] == "depot":
            kv = dict(x.split("=") for x in p[2:])
            depots[p[1]] = kv
        elif p[0] == "overflow":
            overflow = p[1]
    maxv = sum(min(r, maxform[t]) if maxform.get(t) is not None else r for t, r in req.items()) + tracks
    if overflow is not None and overflow in depots:
        kv = depots[overflow]
        caps = [int(c) for c in kv["caps"].split(",") if c != ""]
        if int(kv["total"]) < maxv or any(c < maxv for c in caps):
            bad.append(("overflow-capacity", "overflow depot total=%s caps=%s < max vehicles %d" % (kv["total"], kv["caps"], maxv)))
    if inst.get("depots") is None:
        for dix, kv in depots.items():
            if dix == overflow:
                continue
            caps = [int(c) for c in kv["caps"].split(",") if c != ""]
            if int(kv["total"]) < maxv or any(c < maxv for c in caps):
                bad.append(("default-depot-capacity", "default depot %s total=%s caps=%s < max vehicles %d" % (dix, kv["total"], kv["caps"], maxv)))
                break
    return bad


def diff_to_failure(inst, impl, model):
    """Differences on observations whose model value is proved to equal the documented value:
    reach lines (C17_can_reach_iff: the model's can_reach is the documented timing rule), node lines
    (C17_load_nodes: the model's nodes are the instance's records)."""
    out = []
    key = lambda l: " ".join(l.split()[:2])
    mm = {key(l): l for l in model}
    for l in impl:
        p = l.split()
        if p[0] in ("reach", "node", "maxform") and key(l) in mm and mm[key(l)] != l:
            if p[0] == "maxform":
                out.append(("formation-limit-not-the-smaller-one",
                            "implementation [%s], the smaller of the type's and the route segment's limit (model, theorem "
                            "C17_formation_limit_is_the_smaller_one) [%s]" % (l, mm[key(l)])))
            elif p[0] == "reach":
                a, b = set(p[3:]), set(mm[key(l)].split()[3:])
                out.append(("can-reach-not-the-documented-rule",
                            "node %s: implementation can_reach to %s, documented rule (model, theorem C17_can_reach_iff) "
                            "to %s; extra=%s missing=%s" % (p[1], sorted(a), sorted(b), sorted(a - b), sorted(b - a))))
            else:
                out.append(("node-not-the-instance-record",
                            "implementation [%s], instance record (model, theorem C17_load_nodes) [%s]" % (l, mm[key(l)])))
    return out


def search_witness(d, k, inst, impl, model):
    """The correspondence differs on a timing getter (pair lines) but not on can_reach: look for a concrete input
    on which the property itself fails, by moving the second activity into the window between the two minimal
    durations and re-running implementation and model. Returns (what, detail, instance) or None."""
    key = lambda l: " ".join(l.split()[:3])
    mm = {key(l): l for l in model if l.startswith("pair ")}
    nodes = {}
    for l in impl:
        if l.startswith("node "):
            q = l.split()
            nodes[q[1]] = dict(x.split("=") for x in q[2:])
    tried = 0
    for l in impl:
        if not l.startswith("pair ") or key(l) not in mm or mm[key(l)] == l:
            continue
        q = l.split()
        a, b = q[1], q[2]
        kv_i = dict(x.split("=") for x in q[3:])
        kv_m = dict(x.split("=") for x in mm[key(l)].split()[3:])
        if kv_i["mindur"] == kv_m["mindur"] or "INF" in (kv_i["mindur"], kv_m["mindur"]):
            continue
        if a not in nodes or b not in nodes or nodes[a]["kind"] not in "VM" or nodes[b]["kind"] not in "VM":
            continue
        lo = min(int(kv_i["mindur"]), int(kv_m["mindur"]))
        delta = int(nodes[a]["end"]) + lo - int(nodes[b]["start"])
        inst2 = json.loads(json.dumps(inst))
        moved = False
        if nodes[b]["kind"] == "M":
            for sl in inst2.get("maintenanceSlots") or []:
                if instgen.from_iso(sl["start"]) == int(nodes[b]["start"]) and sl["location"] == "L%s" % nodes[b]["sloc"] and not moved:
                    sl["start"] = instgen.iso(instgen.from_iso(sl["start"]) + delta)
                    sl["end"] = instgen.iso(instgen.from_iso(sl["end"]) + delta)
                    moved = True
        else:
            for dep in inst2["departures"]:
                for sg in dep["segments"]:
                    if instgen.from_iso(sg["departure"]) == int(nodes[b]["start"]) and not moved:
                        sg["departure"] = instgen.iso(instgen.from_iso(sg["departure"]) + delta)
                        moved = True
        if not moved or int(nodes[b]["start"]) + delta < 0:
            continue
        tried += 1
        r2 = run_case((d, "w%s_%d" % (k, tried), inst2))
        if r2["hstatus"] == "OK" and r2["dstatus"] == "OK":
            f = diff_to_failure(inst2, r2["impl"], r2["model"])
            f = [x for x in f if x[0] == "can-reach-not-the-documented-rule"]
            if f:
                return (f[0][0], f[0][1] + " [instance found by moving %s to %d s after the end of %s]" % (b, lo, a), inst2)
        if tried >= 6:
            break
    return None


def ref_variants(rng, inst):
    """the instance at the level of its references (RawLoad.resolve): unusual but defined listings, and listings whose
    references do not resolve (the loader must panic, the model too; an UNUSED route may dangle unnoticed)"""
    out = []
    j = lambda: json.loads(json.dumps(inst))
    kind = rng.choice(["dup_allowed", "unused_route_dangling", "dangling_route_type", "dangling_seg_loc", "dangling_dep_route",
                       "dangling_dseg_rseg", "dangling_slot_loc", "dangling_depot_loc", "dangling_allowed_type",
                       "dangling_dh_index", "short_matrix", "short_row", "dup_location_entry_in_indices"])
    i2 = j()
    used_routes = {d["route"] for d in i2["departures"] if True}
    if kind == "dup_allowed":
        deps = [d for d in i2.get("depots") or [] if d["allowedTypes"]]
        if not deps:
            return []
        d = rng.choice(deps)
        a = dict(rng.choice(d["allowedTypes"]))
        a["capacity"] = rng.choice([0, 1, 3])
        d["allowedTypes"].append(a)        # the later entry wins
    elif kind == "unused_route_dangling":
        i2["routes"].append({"id": "r_unused", "vehicleType": "T_none", "segments": [
            {"id": "x", "order": 0, "origin": "L_none", "destination": "L0", "distance": 5, "duration": 60}]})
    elif kind == "dangling_route_type":
        r = next(r for r in i2["routes"] if r["id"] in used_routes)
        r["vehicleType"] = "T_none"
    elif kind == "dangling_seg_loc":
        dep = rng.choice(i2["departures"])
        r = next(r for r in i2["routes"] if r["id"] == dep["route"])
        sid = rng.choice(dep["segments"])["routeSegment"]
        g = next(g for g in r["segments"] if g["id"] == sid)
        g[rng.choice(["origin", "destination"])] = "L_none"
    elif kind == "dangling_dep_route":
        rng.choice(i2["departures"])["route"] = "r_none"
    elif kind == "dangling_dseg_rseg":
        rng.choice(rng.choice(i2["departures"])["segments"])["routeSegment"] = "s_none"
    elif kind == "dangling_slot_loc":
        if not i2.get("maintenanceSlots"):
            return []
        rng.choice(i2["maintenanceSlots"])["location"] = "L_none"
    elif kind == "dangling_depot_loc":
        if not i2.get("depots"):
            return []
        rng.choice(i2["depots"])["location"] = "L_none"
    elif kind == "dangling_allowed_type":
        deps = [d for d in i2.get("depots") or [] if d["allowedTypes"]]
        if not deps:
            return []
        rng.choice(rng.choice(deps)["allowedTypes"])["vehicleType"] = "T_none"
    elif kind == "dangling_dh_index":
        ix = i2["deadHeadTrips"]["indices"]
        ix[rng.randrange(len(ix))] = "L_none"
    elif kind == "short_matrix":
        m = i2["deadHeadTrips"][rng.choice(["durations", "distances"])]
        m.pop()
    elif kind == "short_row":
        m = i2["deadHeadTrips"][rng.choice(["durations", "distances"])]
        rng.choice(m).pop()
    else:
        # `indices` lists one location twice (and is one longer): the later row / column wins
        dh = i2["deadHeadTrips"]
        k = rng.randrange(len(dh["indices"]))
        dh["indices"].append(dh["indices"][k])
        for key in ("durations", "distances"):
            for row in dh[key]:
                row.append(rng.choice([0, 300, 700]))
            dh[key].append([rng.choice([0, 300, 700]) for _ in range(len(dh["indices"]))])
    i2["_refkind"] = kind
    return [i2]


def features(inst, impl):
    f = set()
    if inst.get("_refkind"):
        f.add("ref_" + inst["_refkind"])
        if "load PANIC" in impl[:1]:
            f.add("load_refused")
    if inst.get("depots") is None:
        f.add("default_depots")
    if inst.get("maintenanceSlots"):
        f.add("maintenance")
    if inst["parameters"]["shunting"]["minimalDuration"] == 0:
        f.add("zero_shunting")
    if inst["parameters"].get("forbidDeadHeadTrips"):
        f.add("forbid_dh")
    if len(inst["vehicleTypes"]) > 1:
        f.add("multi_type")
    # ties: some node ends exactly when another starts
    ends, starts = set(), set()
    for l in impl:
        if l.startswith("node ") and ("kind=V" in l or "kind=M" in l):
            kv = dict(p.split("=") for p in l.split()[2:])
            ends.add(kv["end"])
            starts.add(kv["start"])
    if ends & starts:
        f.add("time_ties")
    return f


def main(tier, seed):
    t0 = time.time()
    out = {"violations": [], "known": []}
    # 1. proof obligations
    proof = lib.check_property_file(PID)
    # 2. builds
    lib.build_coq()
    lib.build_driver()
    lib.build_harness()
    # 3. cases: corpus first, then generated
    n = lib.ncases(220 if tier == "quick" else 15000)
    rng = random.Random(seed)
    d = lib.casedir(PID)
    insts = lib.load_corpus(PID) + [instgen.gen_instance(rng) for _ in range(n)]
    if os.environ.get("VERIF_REPLAY"):
        # a replay of the calendar family (Cal.v vs rapid_time) carries no instance: only that family is re-run
        insts = [i for i in insts if "vehicleTypes" in i]
    # reference level: a fifth as many listings with unusual or unresolvable references
    rrng = random.Random(seed * 31 + 17)
    for base in ([] if os.environ.get("VERIF_REPLAY") else list(insts[-max(1, n // 5):])):
        insts += ref_variants(rrng, base)
    if not os.environ.get("VERIF_REPLAY"):
        insts += instgen.boundary_instances(random.Random(seed * 131 + 17), 12 if tier == "quick" else 300)
    results = lib.pmap(run_case, [(d, k, inst) for k, inst in enumerate(insts)])
    # correspondence differs somewhere but no observation of the property differs: search for a failing input
    extra = []
    for r in results:
        if r["hstatus"] == "OK" and r["dstatus"] == "OK" and not diff_to_failure(r["inst"], r["impl"], r["model"]) \
                and any(l.startswith("pair ") for l in set(r["impl"]) - set(r["model"])):
            w = search_witness(d, r["k"], r["inst"], r["impl"], r["model"])
            if w:
                extra.append(w)
                break
    # the calendar layer under every departure / arrival time: Cal.v against rapid_time (family `time`)
    from . import timecorr
    tr = timecorr.cone_family(PID, tier, seed)
    tdiffs = [({"time": True, "seed": seed, "family": "time"}, x) for x in tr["diffs"]]
    return lib.conclude_diff(PID, tier, seed, t0, proof, results, check_impl, features, extra_diffs=tdiffs,
                             extra_cov={"calendar_correspondence": {k: v for k, v in tr.items() if k != "diffs"}},
                             strip_model_prefixes=("wf ", "maxvehicles ", "ovf ", "netok ", "valid "),
                             model_flags={"wf true": True, "ovf true": True, "netok true": True, "valid true": True},
                             diff_to_failure=diff_to_failure, extra_violations_inst=extra,
                             what="Network getters after load (nodes, depots, can_reach matrix, successors, "
                                  "predecessors, required vehicles, limits, depot orderings, timing getters)")
