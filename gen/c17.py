"""C17 — loaded network faithfully encodes the instance and its reachability."""
import json
import os
import random
import time

from . import instgen, lib

PID = "C17"


def perm_from_obs(lines, inst):
    """Depot index -> location, read from the implementation's depot lines (oracle for HashMap order)."""
    if inst.get("depots") is not None:
        return None
    perm = []
    for l in lines:
        if l.startswith("depot "):
            parts = dict(p.split("=") for p in l.split()[2:])
            if parts["loc"] != "N":
                perm.append(int(parts["loc"]))
    return perm


def run_case(args):
    d, k, inst = args
    cpath = os.path.join(d, "c%d.json" % k)
    with open(cpath, "w") as f:
        json.dump({"instance": inst}, f)
    hout = os.path.join(d, "c%d.impl" % k)
    st = lib.run_harness("net", cpath, hout)
    impl = lib.read_lines(hout)
    perm = lib.perm_of(impl, inst)
    mpath = os.path.join(d, "c%d.min" % k)
    with open(mpath, "w") as f:
        f.write(" ".join(str(x) for x in instgen.encode(inst, perm)) + "\n")
    mout = os.path.join(d, "c%d.model" % k)
    st2 = lib.run_driver("net", mpath, mout)
    model = lib.read_lines(mout)
    return {"k": k, "inst": inst, "hstatus": st, "dstatus": st2, "impl": impl, "model": model}


def check_impl(inst, impl):
    """Executable reading of C17 on the implementation's own observations: enumerations are exactly the
    type's reachable nodes; returns list of (what, detail)."""
    bad = []
    reach = {}
    svc = {}
    maint = []
    sdep = []
    edep = []
    for l in impl:
        p = l.split()
        if p[0] == "reach":
            reach[p[1]] = set(p[3:])
        elif p[0] == "svc":
            svc[p[1]] = p[3:]
        elif p[0] == "maint":
            maint = p[2:]
        elif p[0] == "sdepots":
            sdep = p[2:]
        elif p[0] == "edepots":
            edep = p[2:]
    for l in impl:
        p = l.split()
        if p[0] in ("succ", "pred"):
            ty, n, got = p[1], p[2], p[4:]
            tn = set(svc.get(ty, [])) | set(maint) | set(sdep) | set(edep)
            if p[0] == "succ":
                want = {m for m in tn if m in reach.get(n, set())}
            else:
                want = {m for m in tn if n in reach.get(m, set())}
            if len(got) != len(set(got)):
                bad.append((p[0] + "-duplicate", l))
            if set(got) != want:
                bad.append((p[0] + "-inexact", "%s missing=%s extra=%s" % (l, sorted(want - set(got)), sorted(set(got) - want))))
    # overflow depot must be able to host every vehicle; default depots are unlimited
    req, maxform, tracks = {}, {}, 0
    depots, overflow = {}, None
    for l in impl:
        p = l.split()
        if p[0] == "req":
            req[p[2]] = int(p[3])
        elif p[0] == "maxform":
            maxform[p[1]] = None if p[2] == "-" else int(p[2])
        elif p[0] == "node" and "kind=M" in l:
            kv = dict(x.split("=") for x in p[2:])
            tracks += int(kv["tracks"])
        elif p[0] == "depot":
            kv = dict(x.split("=") for x in p[2:])
            depots[p[1]] = kv
        elif p[0] == "overflow":
            overflow = p[1]
    maxv = sum(min(r, maxform[t]) if maxform.get(t) is not None else r for t, r in req.items()) + tracks
    if overflow is not None and overflow in depots:
        kv = depots[overflow]
        caps = [int(c) for c in kv["caps"].split(",") if c != ""]
        if int(kv["total"]) < maxv or any(c < maxv for c in caps):
            bad.append(("overflow-capacity", "overflow depot total=%s caps=%s < max vehicles %d" % (kv["total"], kv["caps"], maxv)))
    if inst.get("depots") is None:
        for dix, kv in depots.items():
            if dix == overflow:
                continue
            caps = [int(c) for c in kv["caps"].split(",") if c != ""]
            if int(kv["total"]) < maxv or any(c < maxv for c in caps):
                bad.append(("default-depot-capacity", "default depot %s total=%s caps=%s < max vehicles %d" % (dix, kv["total"], kv["caps"], maxv)))
                break
    return bad


def features(inst, impl):
    f = set()
    if inst.get("depots") is None:
        f.add("default_depots")
    if inst.get("maintenanceSlots"):
        f.add("maintenance")
    if inst["parameters"]["shunting"]["minimalDuration"] == 0:
        f.add("zero_shunting")
    if inst["parameters"].get("forbidDeadHeadTrips"):
        f.add("forbid_dh")
    if len(inst["vehicleTypes"]) > 1:
        f.add("multi_type")
    # ties: some node ends exactly when another starts
    ends, starts = set(), set()
    for l in impl:
        if l.startswith("node ") and ("kind=V" in l or "kind=M" in l):
            kv = dict(p.split("=") for p in l.split()[2:])
            ends.add(kv["end"])
            starts.add(kv["start"])
    if ends & starts:
        f.add("time_ties")
    return f


def main(tier, seed):
    t0 = time.time()
    out = {"violations": [], "known": []}
    # 1. proof obligations
    proof = lib.check_property_file(PID)
    # 2. builds
    lib.build_coq()
    lib.build_driver()
    lib.build_harness()
    # 3. cases: corpus first, then generated
    n = lib.ncases(150 if tier == "quick" else 3000)
    rng = random.Random(seed)
    d = lib.casedir(PID)
    insts = lib.load_corpus(PID) + [instgen.gen_instance(rng) for _ in range(n)]
    results = lib.pmap(run_case, [(d, k, inst) for k, inst in enumerate(insts)])
    return lib.conclude_diff(PID, tier, seed, t0, proof, results, check_impl, features,
                             strip_model_prefixes=("wf ", "maxvehicles ", "ovf ", "netok ", "valid "),
                             model_flags={"wf true": True, "ovf true": True, "netok true": True, "valid true": True},
                             what="Network getters after load (nodes, depots, can_reach matrix, successors, "
                                  "predecessors, required vehicles, limits, depot orderings, timing getters)")
