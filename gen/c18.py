"""C18 — HTTP service answers each request with its own solution and isolates failures."""
import http.client
import json
import os
import random
import socket
import subprocess
import threading
import time

from . import instgen, lib, solve, solvefam

PID = "C18"


def build_server():
    lk = lib.lock("cargo_srv")
    try:
        env = dict(lib.ENV)
        env["CARGO_TARGET_DIR"] = os.path.join(lib.BUILD, "target_srv")
        env.pop("RUSTFLAGS", None)
        rc, out = lib.sh("cargo build --offline --release -p server --bin server", cwd=lib.REPO, timeout=3000, env=env)
        if rc != 0:
            raise lib.BuildError("cargo-server", out)
        return os.path.join(lib.BUILD, "target_srv", "release", "server")
    finally:
        lk.close()


def free_port():
    s = socket.socket()
    s.bind(("127.0.0.1", 0))
    p = s.getsockname()[1]
    s.close()
    return p


def nonce_instance(inst, tag):
    """the same instance with every id prefixed by a nonce, so that a response can only belong to its request"""
    s = json.dumps(inst)
    out = json.loads(s)

    def ren(x):
        return tag + x
    for t in out["vehicleTypes"]:
        t["id"] = ren(t["id"])
    for l in out["locations"]:
        l["id"] = ren(l["id"])
    for dp in out.get("depots") or []:
        dp["id"] = ren(dp["id"])
        dp["location"] = ren(dp["location"])
        for a in dp["allowedTypes"]:
            a["vehicleType"] = ren(a["vehicleType"])
    for r in out["routes"]:
        r["id"] = ren(r["id"])
        r["vehicleType"] = ren(r["vehicleType"])
        for g in r["segments"]:
            g["id"] = ren(g["id"])
            g["origin"] = ren(g["origin"])
            g["destination"] = ren(g["destination"])
    for dd in out["departures"]:
        dd["id"] = ren(dd["id"])
        dd["route"] = ren(dd["route"])
        for g in dd["segments"]:
            g["id"] = ren(g["id"])
            g["routeSegment"] = ren(g["routeSegment"])
    for m in out.get("maintenanceSlots") or []:
        m["id"] = ren(m["id"])
        m["location"] = ren(m["location"])
    out["deadHeadTrips"]["indices"] = [ren(x) for x in out["deadHeadTrips"]["indices"]]
    return out


def request(port, kind, payload, timeout=60):
    """returns (status or 'CLOSED'/'TIMEOUT', body)"""
    try:
        c = http.client.HTTPConnection("127.0.0.1", port, timeout=timeout)
        if kind == "health":
            c.request("GET", "/health")
        else:
            headers = {"Content-Type": "application/json"}
            if kind == "wrongtype":
                headers = {"Content-Type": "text/plain"}
            c.request("POST", "/solve", body=payload, headers=headers)
        r = c.getresponse()
        body = r.read().decode("utf-8", "replace")
        c.close()
        return r.status, body
    except socket.timeout:
        return "TIMEOUT", ""
    except Exception:
        return "CLOSED", ""


def run_round(port, rng, d, rnd, nreq, inflight):
    """fire a mix of requests with up to `inflight` concurrently; returns list of result dicts"""
    reqs = []
    for k in range(nreq):
        r = rng.random()
        tag = "r%dq%d_" % (rnd, k)
        inst = nonce_instance(instgen.gen_instance(rng, rng.choice([None, {"slots": "some"}])), tag)
        if r < 0.25:
            reqs.append({"kind": "health", "payload": None, "tag": tag})
        elif r < 0.65:
            reqs.append({"kind": "valid", "payload": json.dumps(inst), "inst": inst, "tag": tag})
        elif r < 0.8:
            s = json.dumps(inst)
            bad = rng.choice([s[: len(s) // 2], s.replace('"capacity": ', '"capacity": "x', 1), "{}", "[1,2,3]", ""])
            reqs.append({"kind": rng.choice(["malformed", "malformed", "wrongtype"]), "payload": bad, "tag": tag})
        else:
            bad = json.loads(json.dumps(inst))
            # "late": the request loads (every reference resolves) and fails only inside the solver — cost rates beyond the
            # i64 guard of the flow network (known finding F2 of C06): a fault at a later point than the loader's
            # (seeded C18g: a lock taken after loading and poisoned by such a panic)
            which = rng.choice(["route", "location", "segment", "late", "late"])
            if which == "late":
                bad["parameters"]["costs"]["serviceTrip"] = 10 ** 15
                bad["parameters"]["costs"]["idle"] = 10 ** 15
            elif which == "route":
                bad["departures"][0]["route"] = tag + "no_such_route"
            elif which == "location":
                # the origin of the route segment that the first departure segment uses
                rid = bad["departures"][0]["route"]
                sid = bad["departures"][0]["segments"][0]["routeSegment"]
                for r in bad["routes"]:
                    if r["id"] == rid:
                        for g in r["segments"]:
                            if g["id"] == sid:
                                g["origin"] = tag + "nowhere"
            else:
                bad["departures"][0]["segments"][0]["routeSegment"] = tag + "no_such_segment"
            reqs.append({"kind": "invalid-late" if which == "late" else "invalid", "payload": json.dumps(bad), "tag": tag})
    sem = threading.Semaphore(inflight)
    results = [None] * len(reqs)

    def work(i):
        with sem:
            time.sleep(rng.random() * 0.02)
            st, body = request(port, reqs[i]["kind"], reqs[i]["payload"])
            results[i] = (st, body)
    ths = [threading.Thread(target=work, args=(i,)) for i in range(len(reqs))]
    for t in ths:
        t.start()
    for t in ths:
        t.join()
    for i, q in enumerate(reqs):
        q["status"], q["body"] = results[i]
    return reqs


def validate_solution(d, q, k):
    """the 200 body must be a solution of exactly this request's instance (ids carry its nonce) passing the
    extracted checkers C01-C05, C07"""
    try:
        js = json.loads(q["body"])
    except Exception:
        return "response is not JSON"
    txt = q["body"]
    if q["tag"] not in txt:
        return "response does not mention the request's ids"
    inst = q["inst"]
    try:
        toks = solve.out_tokens(inst, None, js)
    except KeyError as e:
        return "response names an id that is not in its own request: %s" % e
    mpath = os.path.join(d, "q%d.min" % k)
    with open(mpath, "w") as f:
        f.write(" ".join(str(x) for x in instgen.encode(inst, None)) + "\n" + "\n".join(toks) + "\n")
    mout = os.path.join(d, "q%d.chk" % k)
    st = lib.run_driver("outcheck", mpath, mout)
    if st != "OK":
        return "checker crash " + st[:200]
    for l in lib.read_lines(mout):
        p = l.split()
        if p[0] == "OUTCHK":
            kv = dict(x.split("=") for x in p[1:])
            badk = {a: b for a, b in kv.items() if b != "ok"}
            if badk:
                return "solution fails checkers %s" % badk
            return None
    return "no checker verdict"


def main(tier, seed):
    t0 = time.time()
    proof = lib.check_property_file(PID)
    lib.build_coq()
    lib.build_driver()
    binp = build_server()
    d = lib.casedir(PID)
    rng = random.Random(seed * 7919 + 18)
    rounds, nreq = (3, 50) if tier == "quick" else (60, 120)
    port = free_port()
    env = dict(os.environ)
    env["RAYON_NUM_THREADS"] = "4"
    srv = subprocess.Popen([binp, str(port)], stdout=subprocess.DEVNULL, stderr=subprocess.DEVNULL, env=env)
    violations = []
    counts = {}
    samples = []
    total = 0
    validated = 0
    try:
        up = False
        for _ in range(100):
            st, body = request(port, "health", None, timeout=2)
            if st == 200:
                up = True
                break
            time.sleep(0.1)
        if not up:
            violations.append(("server-does-not-start", "no 200 on /health after start"))
        # the very first request of the process is a minimal instance, one of the last a demanding one without depots: whatever
        # the process remembers from its first instance must not be applied to a later one (seeded C18i: a memoised bound)
        def solve_and_validate(inst0, tag, what):
            nonlocal total, validated
            inst = nonce_instance(inst0, tag)
            q = {"kind": "valid", "payload": json.dumps(inst), "inst": inst, "tag": tag}
            q["status"], q["body"] = request(port, "valid", q["payload"], timeout=120)
            total += 1
            counts["%s->%s" % (what, q["status"])] = 1
            if q["status"] != 200:
                violations.append(("valid-request-not-answered", "POST /solve (%s, %s) -> %s" % (what, tag, q["status"])))
            else:
                err = validate_solution(d, q, total)
                validated += 1
                if err:
                    violations.append(("wrong-solution", "request %s: %s" % (tag, err)))
        tiny = {"vehicleTypes": [{"id": "T", "capacity": 100, "seats": 50}], "locations": [{"id": "A"}, {"id": "B"}],
                "routes": [{"id": "rAB", "vehicleType": "T", "segments": [{"id": "rAB_s", "order": 0, "origin": "A",
                            "destination": "B", "distance": 10000, "duration": 1800}]}],
                "departures": [{"id": "d0", "route": "rAB", "segments": [{"id": "d0_s", "routeSegment": "rAB_s",
                                "departure": instgen.iso(7200), "passengers": 10, "seated": 5}]}],
                "deadHeadTrips": {"indices": ["A", "B"], "durations": [[0, 1800], [1800, 0]], "distances": [[0, 10000], [10000, 0]]},
                "parameters": {"shunting": {"minimalDuration": 60, "deadHeadTripDuration": 120},
                               "costs": {"staff": 1, "serviceTrip": 1, "maintenance": 0, "deadHeadTrip": 2, "idle": 1}}}
        if up:
            solve_and_validate(tiny, "first_", "first-tiny")
        for rnd in range(rounds if up else 0):
            reqs = run_round(port, rng, d, rnd, nreq, 16)
            for k, q in enumerate(reqs):
                total += 1
                key = "%s->%s" % (q["kind"], q["status"])
                counts[key] = counts.get(key, 0) + 1
                if q["kind"] == "health":
                    if q["status"] != 200 or q["body"] != "Healthy":
                        violations.append(("health-not-answered", "GET /health -> %s %r while other requests were in flight"
                                           % (q["status"], q["body"][:50])))
                elif q["kind"] == "valid":
                    if q["status"] != 200:
                        violations.append(("valid-request-not-answered", "POST /solve (valid, %s) -> %s" % (q["tag"], q["status"])))
                    else:
                        err = validate_solution(d, q, total)
                        validated += 1
                        if err:
                            violations.append(("wrong-solution", "request %s: %s" % (q["tag"], err)))
                        elif len(samples) < 2:
                            samples.append({"request": q["tag"], "status": 200,
                                            "objectiveValue": json.loads(q["body"])["objectiveValue"]})
                else:
                    if q["status"] == 200:
                        violations.append(("bad-request-answered-200", "%s body -> 200 %s" % (q["kind"], q["body"][:80])))
                    if q["status"] == "TIMEOUT":
                        violations.append(("bad-request-hangs", "%s body -> no answer and connection kept open" % q["kind"]))
            # after the faults of this round: the server still runs and answers a fresh valid request
            if srv.poll() is not None:
                violations.append(("server-died", "server process exited with %s after round %d" % (srv.returncode, rnd)))
                break
            st, body = request(port, "health", None)
            if st != 200 or body != "Healthy":
                violations.append(("health-after-faults", "GET /health -> %s after round %d" % (st, rnd)))
            tag = "after%d_" % rnd
            inst = nonce_instance(instgen.gen_instance(rng), tag)
            q = {"kind": "valid", "payload": json.dumps(inst), "inst": inst, "tag": tag}
            q["status"], q["body"] = request(port, "valid", q["payload"])
            total += 1
            if q["status"] != 200:
                violations.append(("valid-after-faults-not-answered", "POST /solve after round %d -> %s" % (rnd, q["status"])))
            else:
                err = validate_solution(d, q, total)
                validated += 1
                if err:
                    violations.append(("wrong-solution", "request %s: %s" % (tag, err)))
        # a valid request larger than the 2 MiB default body limit of the framework (the server documents that it
        # accepts instances of any size): padded with locations nobody uses
        if up and srv.poll() is None:
            tag = "large_"
            base = instgen.gen_instance(rng, {"depots": "ample", "nlocs": 3})
            n0 = len(base["locations"])
            npad = 440
            base["locations"] += [{"id": "P%d" % k} for k in range(npad)]
            dh = base["deadHeadTrips"]
            dh["indices"] += ["P%d" % k for k in range(npad)]
            n = n0 + npad
            for key, fill in (("durations", 12000), ("distances", 150000)):
                m = dh[key]
                for row in m:
                    row += [fill] * npad
                for a in range(npad):
                    m.append([fill] * (n0 + a) + [0] + [fill] * (npad - a - 1))
            inst = nonce_instance(base, tag)
            q = {"kind": "valid", "payload": json.dumps(inst, indent=1), "inst": inst, "tag": tag}
            q["status"], q["body"] = request(port, "valid", q["payload"], timeout=180)
            total += 1
            counts["large(%d KiB)->%s" % (len(q["payload"]) // 1024, q["status"])] = 1
            if q["status"] != 200:
                violations.append(("large-valid-request-not-answered", "POST /solve with a valid body of %d bytes -> %s %s"
                                   % (len(q["payload"]), q["status"], q["body"][:100])))
            else:
                err = validate_solution(d, q, total)
                validated += 1
                if err:
                    violations.append(("wrong-solution", "request %s: %s" % (tag, err)))
        # a valid request with very many departures (size in activities, not in bytes): two locations, a shuttle every
        # minute in both directions for a day and a half; sent while small requests and health checks are in flight, which
        # must not wait for it forever
        if up and srv.poll() is None:
            tag = "many_"
            ndep = 2600 if tier == "quick" else 6000
            base = {
                "vehicleTypes": [{"id": "T0", "capacity": 100, "seats": 50, "maximalFormationCount": None}],
                "locations": [{"id": "L0"}, {"id": "L1"}],
                "depots": [{"id": "dep0", "location": "L0", "capacity": 5000,
                            "allowedTypes": [{"vehicleType": "T0", "capacity": None}]}],
                "routes": [{"id": "r0", "vehicleType": "T0",
                            "segments": [{"id": "r0s0", "order": 0, "origin": "L0", "destination": "L1", "distance": 20000,
                                          "duration": 1500, "maximalFormationCount": None}]},
                           {"id": "r1", "vehicleType": "T0",
                            "segments": [{"id": "r1s0", "order": 0, "origin": "L1", "destination": "L0", "distance": 20000,
                                          "duration": 1500, "maximalFormationCount": None}]}],
                "departures": [{"id": "d%d" % k, "route": "r%d" % (k % 2),
                                "segments": [{"id": "d%d_s0" % k, "routeSegment": "r%ds0" % (k % 2),
                                              "departure": instgen.iso(3600 + 60 * (k // 2)), "passengers": 40, "seated": 10}]}
                               for k in range(ndep)],
                "maintenanceSlots": [],
                "deadHeadTrips": {"indices": ["L0", "L1"], "durations": [[0, 1800], [1800, 0]],
                                  "distances": [[0, 21000], [21000, 0]]},
                "parameters": instgen.gen_instance(random.Random(5), None)["parameters"],
            }
            base["parameters"]["forbidDeadHeadTrips"] = False
            inst = nonce_instance(base, tag)
            q = {"kind": "valid", "payload": json.dumps(inst), "inst": inst, "tag": tag}
            side = []

            def side_work():
                time.sleep(1.0)
                side.append(("health", request(port, "health", None, timeout=30)))
                t2 = "beside_"
                i2 = nonce_instance(instgen.gen_instance(rng, {"slots": "none"}), t2)
                q2 = {"kind": "valid", "payload": json.dumps(i2), "inst": i2, "tag": t2}
                q2["status"], q2["body"] = request(port, "valid", q2["payload"], timeout=150)
                side.append(("solve", q2))
            th = threading.Thread(target=side_work)
            th.start()
            q["status"], q["body"] = request(port, "valid", q["payload"], timeout=240)
            th.join()
            total += 3
            counts["many(%d departures)->%s" % (ndep, q["status"])] = 1
            if q["status"] != 200:
                violations.append(("many-departures-request-not-answered", "POST /solve with a valid instance of %d departures -> %s %s"
                                   % (ndep, q["status"], str(q["body"])[:100])))
            else:
                js = json.loads(q["body"])
                segs = [x["departureSegment"] for x in js["schedule"]["departureSegments"]]
                want = sorted(sg["id"] for dp in inst["departures"] for sg in dp["segments"])
                validated += 1
                if sorted(segs) != want:
                    violations.append(("wrong-solution", "request %s: the answer does not list every departure segment of its instance exactly once" % tag))
            for (k, v) in side:
                if k == "health" and v[0] != 200:
                    violations.append(("health-not-answered", "GET /health while a large solve is pending -> %s" % (v[0],)))
                if k == "solve":
                    counts["beside-many->%s" % v["status"]] = 1
                    if v["status"] != 200:
                        violations.append(("valid-request-not-answered", "small POST /solve sent while a large one is pending -> %s" % v["status"]))
                    else:
                        err = validate_solution(d, v, total)
                        validated += 1
                        if err:
                            violations.append(("wrong-solution", "request %s: %s" % (v["tag"], err)))
        if up and srv.poll() is None:
            # demanding and without depots: six overlapping trips, nine coupled vehicles each, no formation limit
            heavy = json.loads(json.dumps(tiny))
            heavy["routes"].append({"id": "rBA", "vehicleType": "T", "segments": [{"id": "rBA_s", "order": 0, "origin": "B",
                                    "destination": "A", "distance": 10000, "duration": 1800}]})
            heavy["departures"] = [{"id": "h%d" % j, "route": "rAB" if j % 2 == 0 else "rBA",
                                    "segments": [{"id": "h%d_s" % j, "routeSegment": "rAB_s" if j % 2 == 0 else "rBA_s",
                                                  "departure": instgen.iso(7200 + 300 * j), "passengers": 900, "seated": 450}]}
                                   for j in range(6)]
            solve_and_validate(heavy, "heavy_", "late-heavy-without-depots")
        # a long run of failing requests (one after the other, loader-level and late panics alternating), then a valid one:
        # whatever a failed request leaves behind must not add up (seeded C18h: a counter leaked by every panic shuts the
        # service after 32 of them)
        if up and srv.poll() is None:
            nburst = 80 if tier == "quick" else 400
            b0 = instgen.gen_instance(rng, {"slots": "none", "ndeps": 2})
            for j in range(nburst):
                bad = json.loads(json.dumps(nonce_instance(b0, "burst%d_" % j)))
                if j % 2:
                    bad["parameters"]["costs"]["serviceTrip"] = 10 ** 15
                    bad["parameters"]["costs"]["idle"] = 10 ** 15
                else:
                    bad["departures"][0]["route"] = "burst_no_such_route"
                st, body = request(port, "invalid", json.dumps(bad), timeout=30)
                counts["burst-invalid->%s" % st] = counts.get("burst-invalid->%s" % st, 0) + 1
                total += 1
                if st == 200:
                    violations.append(("bad-request-answered-200", "burst request %d -> 200 %s" % (j, body[:80])))
                    break
            tag = "afterburst_"
            inst = nonce_instance(instgen.gen_instance(rng), tag)
            q = {"kind": "valid", "payload": json.dumps(inst), "inst": inst, "tag": tag}
            q["status"], q["body"] = request(port, "valid", q["payload"])
            total += 1
            counts["after-burst->%s" % q["status"]] = 1
            if q["status"] != 200:
                violations.append(("valid-after-faults-not-answered",
                                   "POST /solve after %d failing requests in a row -> %s" % (nburst, q["status"])))
            else:
                err = validate_solution(d, q, total)
                validated += 1
                if err:
                    violations.append(("wrong-solution", "request %s: %s" % (tag, err)))
    finally:
        srv.kill()
        srv.wait()
    kf = lib.load_known_findings()
    rc = 0
    lines = []
    real = []
    seen = set()
    for (w, detail) in violations:
        e = lib.known_match(PID, w, detail, kf)
        if e:
            if e["id"] not in seen:
                seen.add(e["id"])
                lines.append("KNOWN-FINDING: property=%s %s (%s)" % (PID, e["id"], e["summary"]))
        else:
            real.append((w, detail))
    if real:
        path = lib.write_replay(PID, real[0][0], {"property": PID, "kind": "property-fails-on-implementation",
                                                  "what": real[0][0], "detail": real[0][1], "seed": seed,
                                                  "all": real[:20]})
        lines.append("VIOLATION property=%s replay=%s" % (PID, path))
        rc = 1
    if not proof["ok"]:
        path = lib.write_replay(PID, "proof", {"property": PID, "kind": "proof-obligation-broken", "log": proof["log"]})
        if rc == 0:
            lines.append("VIOLATION property=%s replay=%s no-failing-input-found" % (PID, path))
        rc = 1
    cov = {"obligations": proof["obligations"], "discharged": proof["obligations"] if proof["ok"] else 0,
           "checker_cmd": "make -C coq P_C18.vo + coqc P_C18.v for Print Assumptions", "trusted_base": lib.TRUSTED_BASE,
           "theorems": proof["theorems"], "axioms": proof["axioms"],
           "evaluations": total, "distinct_nontrivial": validated,
           "rule": "rounds of mixed requests (health / valid with nonce ids / malformed / wrong content type / semantically "
                   "invalid) with up to 16 in flight against the real server binary; non-trivial = a 200 solve response "
                   "validated against its own instance by the extracted checkers C01-C05, C07",
           "samples": samples or [{"note": "no validated response"}], "outcome_counts": counts,
           "rounds": rounds, "requests_per_round": nreq}
    lib.write_evidence(PID, tier, seed, "proof", cov,
                       ["tokio's per-task panic isolation, socket behaviour, worker starvation by the blocking handler and "
                        "the extractor's rejection codes are runtime behaviour the model cannot exhibit: exercised, not proved",
                        "the model (Server.v) has no shared state between requests; that the code has none either is what the "
                        "runs examine"], time.time() - t0, len(real))
    for l in lines:
        print(l)
    print("%s: %d requests %s, %d validated solutions, %d failures; proof %s" % (PID, total, counts, validated, len(real),
                                                                              "ok" if proof["ok"] else "BROKEN"))
    return rc
