"""Correspondence of the whole proof cone. The theorems a property cites are about the functional models (Schedule.v,
Swaps.v, Tour.v, Transition.v, TOpt.v); their tie to /repo is the exact agreement of model and code on operation level.
Every check therefore also compares, on a small batch of fresh cases per run, each model its theorems depend on with the
code — not only along the trajectories its own scenario happens to take. A difference found here is a broken
correspondence (reported with no-failing-input-found unless the property's own checker also found a failing input)."""
import random

from . import c11, c12, c15, f32corr, instgen, lib, netobs, opsfam, timecorr

# which models each property's theorems depend on
CONES = {
    "C01": ("ops", "neigh", "tour", "trans"), "C02": ("ops", "neigh", "tour", "trans"),
    "C03": ("ops", "neigh", "tour", "trans"), "C04": ("ops", "neigh", "tour", "trans"),
    "C05": ("ops", "neigh", "tour", "trans"), "C07": ("ops", "neigh", "tour"),
    "C16": ("ops", "neigh", "tour", "trans"), "C06": ("ops", "neigh", "tour", "trans"),
    "C08": ("ops", "neigh"), "C11": ("ops", "tour", "trans"),
    "C09": ("tour", "trans"), "C10": ("tour", "trans"), "C13": ("tour",),
    "C14": ("f32", "slots"),
}
# SlotDist.v / F32.v are in the cone of the theorems cited for the start solution (C02 track clause, C06 no panic, C14)
for _p in ("C02", "C06"):
    CONES[_p] = CONES[_p] + ("f32", "slots")
# Cal.v (ISO times <-> the model's seconds) is under every statement about departure / arrival times: loader (C17), output (C03)
CONES["C17"] = ("time",)
CONES["C03"] = CONES["C03"] + ("time",)
SIZES = {"quick": {"ops": 48, "neigh": 30, "tour": 32, "trans": 40, "f32": 3000, "slots": 40, "time": 5000},
         "thorough": {"ops": 600, "neigh": 300, "tour": 400, "trans": 500, "f32": 60000, "slots": 1500, "time": 120000}}


def _ops(d, rng, seed, n):
    profiles = [None, {"slots": "some"}, {"depots": "scarce", "slots": "some"}, {"depots": "scarce", "ntypes": 1},
                {"depots": "restricted", "ntypes": 2}, {"slots": "some", "type_limits": "all"},
                {"depots": "ample", "ntypes": 1, "nlocs": 4, "slots": "some", "maxdist": "mid"}]
    gen = [instgen.gen_instance(rng, rng.choice(profiles)) for _ in range(n)]
    rs = [r for r in lib.pmap(opsfam.run_case, [(d, 50000 + k, inst, seed + 77, 25) for k, inst in enumerate(gen)]) if r]
    return [(r["inst"], r["model_diff"]) for r in rs if r.get("model_diff")], len(rs)


def slot_profile(rng):
    return {"slots": "many", "ntypes": rng.choice([2, 3, 3, 4]), "maxdist": rng.choice(["small", "mid", "large", "zero", "absent"]),
            "depots": rng.choice(["ample", "absent"])}


def _f32(d, rng, seed, n, pid):
    r = f32corr.run(pid, rng, n, "f32cone")
    return [({"f32": True, "seed": seed}, x) for x in r["diffs"]], r["ops"]


def _time(d, rng, seed, n, pid):
    r = timecorr.run(pid, rng, n, "timecone")
    return [({"time": True, "seed": seed}, x) for x in r["diffs"]], r["ops"]


def _slots(d, rng, seed, n):
    gen = [instgen.gen_instance(rng, slot_profile(rng)) for _ in range(n)]
    rs = [r for r in lib.pmap(f32corr.slots_case, [(d, 90000 + k, inst) for k, inst in enumerate(gen)]) if not r.get("skipped")]
    return [({"instance": r["inst"]}, r["diff"]) for r in rs if r.get("diff")], len(rs)


def replay_one(fam, case, d):
    """re-runs one stored cone case (check.py <ID> --replay <cone replay>)"""
    if fam == "f32":
        r = f32corr.run("C14", random.Random(case.get("seed", 1)), 3000, "f32replay")
        return [(case, x) for x in r["diffs"]]
    if fam == "time":
        r = timecorr.run("C17", random.Random(case.get("seed", 1)), 5000, "timereplay")
        return [(case, x) for x in r["diffs"]]
    if fam == "slots":
        r = f32corr.slots_case((d, 99005, case["instance"]))
        return [(case, r["diff"])] if r.get("diff") else []
    if fam == "ops":
        r = opsfam.run_ops(d, 99001, case["instance"], case["ops"])
        return [(case, r["model_diff"])] if r.get("model_diff") else []
    if fam == "neigh":
        r = c11.run_one((d, 99002, case["instance"], case["walk"]))
        return [(case, r["model_diff"])] if r.get("model_diff") else []
    if fam == "tour":
        obs, _ = netobs.observe(case["instance"], d, "k99003")
        r = c12.run_tours(d, 99003, case["instance"], obs, case["tours"])
        strip = ("S ", "X ")
    else:
        r = c15.run_trans(d, 99004, case["instance"], case)
        strip = ("TINV ", "ICHK ", "TOS ")
    if r["hstatus"] != "OK" or r["dstatus"] != "OK":
        return [(case, "harness=%s driver=%s" % (r["hstatus"], r["dstatus"]))]
    fd = lib.first_diff(r["impl"], [l for l in r["model"] if not l.startswith(strip)])
    return [(case, "line %d: impl=[%s] model=[%s]" % (fd[0], fd[1][:300], fd[2][:300]))] if fd else []


def _neigh(d, rng, seed, n):
    profiles = [{"slots": "some"}, {"slots": "some", "depots": "scarce"}, {"slots": "some", "type_limits": "all"},
                {"slots": "some", "seg_limits": "all", "ntypes": 2}, {"slots": "some", "zero_shunting": True}]
    cases = [(d, 60000 + k, instgen.gen_instance(rng, rng.choice(profiles)), c11.gen_walk(rng)) for k in range(n)]
    rs = lib.pmap(c11.run_one, cases)
    walks = {c[1]: c[3] for c in cases}
    return [({"instance": r["inst"], "walk": walks[r["k"]]}, r["model_diff"]) for r in rs if r.get("model_diff")], len(rs)


def _lines(d, rng, seed, n, fam):
    if fam == "tour":
        gen = [instgen.gen_instance(rng, rng.choice([None, None, {"zero_shunting": True}])) for _ in range(n)]
        rs = lib.pmap(c12.run_case, [(d, 70000 + k, inst, seed + 5) for k, inst in enumerate(gen)])
        strip = ("S ", "X ")
    else:
        gen = [instgen.gen_instance(rng, {"slots": rng.choice(["some", "some", "none"]),
                                          "depots": rng.choice(["ample", "absent", "ample", "scarce"]),
                                          "maxdist": rng.choice(["small", "mid", "large", "absent", "spread", "spread"])}) for _ in range(n)]
        rs = [r for r in lib.pmap(c15.run_case, [(d, 80000 + k, inst, seed + 9, "quick") for k, inst in enumerate(gen)]) if r]
        strip = ("TINV ", "ICHK ", "TOS ")
    out = []
    m = 0
    for r in rs:
        if r.get("skipped"):
            continue
        m += 1
        if r["hstatus"] != "OK" or r["dstatus"] != "OK":
            out.append((r["inst"], "harness=%s driver=%s" % (r["hstatus"], r["dstatus"])))
            continue
        model = [l for l in r["model"] if not l.startswith(strip)]
        fd = lib.first_diff(r["impl"], model)
        if fd:
            out.append((r["inst"], "line %d: impl=[%s] model=[%s]" % (fd[0], fd[1][:300], fd[2][:300])))
    return out, m


def cone_correspondence(pid, tier, seed, d):
    """returns (list of (family, case, first difference), {family: cases compared})"""
    import json
    import os
    rp = os.environ.get("VERIF_REPLAY")
    if rp:
        r = json.load(open(rp))
        if r.get("kind") == "correspondence-broken" and r.get("family") and r.get("case"):
            return [(r["family"], c, m) for (c, m) in replay_one(r["family"], r["case"], d)], {r["family"]: 1}
        return [], {}
    if pid not in CONES:
        return [], {}
    rng = random.Random(seed * 104729 + int(pid[1:]) * 31 + 7)
    sizes = SIZES["thorough" if tier == "thorough" else "quick"]
    diffs, counts = [], {}
    names = {"ops": "Schedule.v vs schedule.rs / schedule/modifications.rs (operation histories)",
             "neigh": "Swaps.v vs local_search/neighborhood (walks)",
             "tour": "Tour.v vs tour.rs / tour/modifications.rs (tour operations)",
             "trans": "Transition.v / TOpt.v vs transition*.rs, transition_local_search, transition_cycle_tsp"}
    for fam in CONES[pid]:
        n = sizes[fam]
        if fam == "ops":
            ds, m = _ops(d, rng, seed, n)
        elif fam == "neigh":
            ds, m = _neigh(d, rng, seed, n)
        elif fam == "f32":
            ds, m = _f32(d, rng, seed, n, pid)
        elif fam == "slots":
            ds, m = _slots(d, rng, seed, n)
        elif fam == "time":
            ds, m = _time(d, rng, seed, n, pid)
        else:
            ds, m = _lines(d, rng, seed, n, fam)
        counts[fam] = m
        diffs += [(fam, case, msg) for (case, msg) in ds]
    return diffs, counts


NAMES = {"time": "Cal.v (ISO date-time strings, calendar, TimePoint arithmetic and order) vs rapid_time as the loader and the JSON writer use it",
         "f32": "F32.v (hand-written binary32: u64 as f32, /, +, partial_cmp) vs the hardware operations (bit patterns)",
         "slots": "SlotDist.v vs MinCostFlowSolver::distribute_maintenance_slots (SLOT lines of the hook)",
         "ops": "Schedule.v vs schedule.rs / schedule/modifications.rs (operation histories)",
         "neigh": "Swaps.v / SwapsRot.v vs local_search/neighborhood (walks)",
         "tour": "Tour.v vs tour.rs / tour/modifications.rs (tour operations)",
         "trans": "Transition.v / TOpt.v vs transition*.rs, transition_local_search, transition_cycle_tsp"}
