"""Correspondence of the hand-written binary32 model (coq/F32.v) with the hardware: the harness sub-command `f32` and the
extracted functions on the same operands; bit patterns compared.  Operands: boundary values (0, subnormals, powers of two,
2^24 +- 1 rounding ties, u64::MAX, the largest finite value, infinity, NaN patterns) and random ones."""
import json
import os

from . import lib


def gen_ops(rng, n):
    special_u = [0, 1, 2, 3, 2 ** 24 - 1, 2 ** 24, 2 ** 24 + 1, 2 ** 24 + 2, 2 ** 24 + 3, 2 ** 25 + 2, 2 ** 25 + 6, 2 ** 53,
                 2 ** 63, 2 ** 64 - 1, 2 ** 64 - 2 ** 39, 2 ** 64 - 2 ** 39 - 1, 2 ** 64 - 2 ** 40, 7000000, 123456789]
    special_b = [0, 1, 2, 3, 0x007FFFFF, 0x00800000, 0x00800001, 0x3F800000, 0x3F7FFFFF, 0x3F800001, 0x7F7FFFFF, 0x7F800000,
                 0x7FC00000, 0x7F800001, 0x4B800000, 0x4B7FFFFF, 0x3EAAAAAB, 0x34000000, 0x33FFFFFF]

    def rb():
        r = rng.random()
        if r < 0.25:
            return rng.choice(special_b)
        if r < 0.35:
            return rng.randrange(0, 0x00800000 * 2)            # subnormals and the smallest normals
        if r < 0.45:
            return rng.randrange(0x7F000000, 0x7F800000)       # near overflow
        if r < 0.7:
            return rng.randrange(0x3F000000, 0x40000000)       # around 1.0
        return rng.randrange(0, 0x7F800001)

    def ru():
        r = rng.random()
        if r < 0.2:
            return rng.choice(special_u)
        if r < 0.5:
            k = rng.randrange(1, 64)
            return max(0, min(2 ** 64 - 1, 2 ** k + rng.choice([-2, -1, 0, 1, 2, 3]) * 2 ** max(0, k - 24 - rng.randrange(0, 3))))
        return rng.randrange(0, 2 ** rng.randrange(1, 65))

    ops = [["u64", str(u)] for u in special_u]
    for a in special_b:
        for b in special_b:
            ops += [["div", a, b], ["add", a, b], ["cmp", a, b]]
    while len(ops) < n:
        k = rng.choice(["u64", "div", "add", "add", "cmp", "divu"])
        if k == "u64":
            ops.append(["u64", str(ru())])
        elif k == "divu":
            # the shape the code uses: quotient of two converted integers, then accumulated
            ops.append(["u64", str(ru())])
            ops.append(["div", rng.choice([0x4AD59F80, 0x49742400, 0x4B189680]), rb()])
        else:
            ops.append([k, rb(), rb()])
    return ops


def run(pid, rng, n, tag="f32"):
    d = lib.casedir(pid)
    ops = gen_ops(rng, n)
    cpath = os.path.join(d, tag + ".json")
    with open(cpath, "w") as f:
        json.dump({"ops": ops}, f)
    hout = os.path.join(d, tag + ".impl")
    st = lib.run_harness("f32", cpath, hout, timeout=60)
    mpath = os.path.join(d, tag + ".min")
    with open(mpath, "w") as f:
        f.write("\n".join(" ".join(str(x) for x in o) for o in ops) + "\n")
    mout = os.path.join(d, tag + ".model")
    ds = lib.run_driver("f32", mpath, mout)
    impl, model = lib.read_lines(hout), lib.read_lines(mout)
    diffs = []
    if st != "OK" or ds != "OK" or len(impl) != len(model):
        diffs.append("harness %s driver %s lines %d/%d" % (st, ds[:100], len(impl), len(model)))
    diffs += ["impl '%s' model '%s'" % (a, b) for a, b in zip(impl, model) if a != b]
    kinds = {}
    for o in ops:
        kinds[o[0]] = kinds.get(o[0], 0) + 1
    nan = sum(1 for l in impl if l.endswith("NAN") or "NONE" in l)
    return {"ops": len(ops), "kinds": kinds, "nan_or_unordered_results": nan, "diffs": diffs[:10], "ndiffs": len(diffs)}


def slots_case(args):
    """SlotDist.v vs distribute_maintenance_slots: SLOT lines of the hook against the MSLOT lines of the model"""
    from . import instgen
    d, k, inst = args
    cpath = os.path.join(d, "sl%d.json" % k)
    with open(cpath, "w") as f:
        json.dump({"instance": inst}, f)
    hout = os.path.join(d, "sl%d.impl" % k)
    st = lib.run_harness("mcf", cpath, hout, timeout=60)
    impl = lib.read_lines(hout)
    if st != "OK" or "load OK" not in impl:
        return {"inst": inst, "skipped": True}
    perm = lib.perm_of(impl, inst)
    blk = [l for l in impl if l.split()[0] in ("MCFTYPE", "SLOT", "EDGE", "FTOUR", "ENDMCF")]
    mpath = os.path.join(d, "sl%d.min" % k)
    with open(mpath, "w") as f:
        f.write(" ".join(str(x) for x in instgen.encode(inst, perm)) + "\n" + "\n".join(blk) + "\n")
    mout = os.path.join(d, "sl%d.chk" % k)
    ds = lib.run_driver("flowcheck", mpath, mout)
    out = lib.read_lines(mout)
    slots, mslots, cur = {}, {}, None
    for l in impl:
        p = l.split()
        if p[0] == "MCFTYPE":
            cur = p[1]
        elif p[0] == "SLOT" and int(p[2]):
            slots.setdefault(cur, {})[p[1]] = int(p[2])
    for l in out:
        p = l.split()
        if p[0] == "MSLOT" and int(p[3]):
            mslots.setdefault(p[1], {})[p[2]] = int(p[3])
    res = {"inst": inst, "skipped": False, "diff": None, "types_with_slots": len(slots),
           "tracks": sum(sum(v.values()) for v in slots.values())}
    impl_panics = "mcf PANIC" in impl and not any(l.startswith("MCFTYPE") for l in impl)
    model_ok = "MSLOTS OK" in out
    if ds != "OK":
        res["diff"] = "driver " + ds[:200]
    elif impl_panics != (not model_ok) and not ("mcf PANIC" in impl and model_ok and any(l.startswith("MCFTYPE") for l in impl)):
        res["diff"] = "distribution: impl panics=%s model ok=%s" % (impl_panics, model_ok)
    elif model_ok and any(l.startswith("MCFTYPE") for l in impl) and slots != mslots:
        res["diff"] = "model %s impl %s" % (json.dumps(mslots, sort_keys=True)[:300], json.dumps(slots, sort_keys=True)[:300])
    return res
