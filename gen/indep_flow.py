#!/usr/bin/env python3-vt
"""Independent lexicographic optimum (vehicles, then operating cost) of the per-type covering circulation,
computed with networkx from the `net` observations of the implementation (not from the recorded flow network).
stdin: JSON {nodes, reach, svc, slots:{type:{node:count}}, req, maxform, depots, pairs, params, planning, type_limits}
stdout: JSON {type: [vehicles, cost]}"""
import json
import sys

import networkx as nx


def solve_type(d, ty):
    svc = d["svc"].get(str(ty), [])
    slots = d["slots"].get(str(ty), {})
    P = d["params"]
    G = nx.DiGraph()
    demand = {}

    def add_edge(u, v, lower, upper, cost, key):
        # parallel edges are avoided by construction (one arc per ordered pair of copies)
        G.add_edge(u, v, capacity=upper - lower, weight=cost)
        demand[u] = demand.get(u, 0) + lower
        demand[v] = demand.get(v, 0) - lower
        return cost * lower
    const = 0
    tl = d["type_limits"][ty]
    arc_cap = max([tl if tl is not None else 100] + list(slots.values()))
    acts = []
    for s in svc:
        mf = d["maxform"].get(s)
        mf = mf if mf is not None else 100
        lo = min(d["req"][s], mf)
        dur = int(d["nodes"][s]["end"]) - int(d["nodes"][s]["start"])
        const += add_edge("L" + s, "R" + s, lo, mf, dur * P["service"], s)
        acts.append(s)
    for m, c in slots.items():
        dur = int(d["nodes"][m]["end"]) - int(d["nodes"][m]["start"])
        const += add_edge("L" + m, "R" + m, c, c, dur * P["maint"], m)
        acts.append(m)
    big = 1
    for a in acts:
        for b in acts:
            if b in d["reach"].get(a, []):
                pr = d["pairs"][a + ">" + b]
                c = pr["dht"] * P["dh"] + pr["idle"] * P["idle"]
                add_edge("R" + a, "L" + b, 0, arc_cap, c, None)
                big += c * arc_cap
    for a in acts:
        big += G["L" + a]["R" + a]["weight"] * (G["L" + a]["R" + a]["capacity"] + 100)
    for k, dep in d["depots"].items():
        for a in acts:
            # start depot -> activity and activity -> end depot are always connectable
            pr = d["pairs"][dep["snode"] + ">" + a]
            c1 = pr["dht"] * P["dh"]
            add_edge("RD" + k, "L" + a, 0, arc_cap, c1, None)
            pr = d["pairs"][a + ">" + dep["enode"]]
            c2 = pr["dht"] * P["dh"]
            add_edge("R" + a, "LD" + k, 0, arc_cap, c2, None)
            big += (c1 + c2) * arc_cap
    for k, dep in d["depots"].items():
        cap = int(dep["caps"].split(",")[ty])
        add_edge("LD" + k, "RD" + k, 0, cap, 0, None)
    for k, dep in d["depots"].items():
        G["LD" + k]["RD" + k]["weight"] = big
    for v in G.nodes:
        G.nodes[v]["demand"] = demand.get(v, 0)
    try:
        cost, flow = nx.network_simplex(G)
    except nx.NetworkXUnfeasible:
        return None
    veh = sum(flow["LD" + k]["RD" + k] for k in d["depots"])
    op = cost - big * veh + const
    return [veh, op]


def main():
    d = json.load(sys.stdin)
    out = {}
    for ty in range(d["ntypes"]):
        out[str(ty)] = solve_type(d, ty)
    json.dump(out, sys.stdout)


if __name__ == "__main__":
    main()
