#!/usr/bin/env python3
"""Seeded generator of small, structured rolling-stock instances.

Produces the JSON instance in the real input format (serde structs of
model/src/json_serialisation/mod.rs) and a numeric encoding for the extracted Coq model.
Every random choice derives from one random.Random(seed).
"""
import datetime
import json
import random

BASE = datetime.datetime(2000, 1, 1, 0, 0, 0)


def iso(sec):
    return (BASE + datetime.timedelta(seconds=sec)).strftime("%Y-%m-%dT%H:%M:%S")


def from_iso(s):
    """seconds relative to BASE — computed by the extracted Cal.v (gen/timeconv.py), not by Python's datetime"""
    from . import timeconv
    v = timeconv.rel(s)
    if v is None:
        raise ValueError("DateTime::new panics on %r (Cal.parse_datetime)" % (s,))
    return v


def time_token(s):
    """token of a time for the driver: seconds, or TPANIC where the loader's DateTime::new panics"""
    from . import timeconv
    v = timeconv.rel(s)
    return "TPANIC" if v is None else v


def gen_instance(rng, profile=None):
    """Return (instance_json, features). profile: dict of overrides used by specific checks."""
    p = profile or {}
    ntypes = p.get("ntypes", rng.choice([1, 1, 2, 2, 3]))
    nlocs = p.get("nlocs", rng.choice([2, 3, 3, 4]))
    grid = rng.choice([600, 900, 1800])
    feats = {}
    types = []
    for t in range(ntypes):
        seats = rng.choice([20, 40, 50])
        cap = seats + rng.choice([0, 20, 50])
        lim = rng.choice([None, None, 1, 2, 3])
        if p.get("type_limits") == "all":
            lim = rng.choice([1, 2, 3])
        if p.get("type_limits") == "none":
            lim = None
        vt = {"id": "T%d" % t, "capacity": cap, "seats": seats}
        if lim is not None:
            vt["maximalFormationCount"] = lim
        types.append(vt)
    locs = [{"id": "L%d" % l} for l in range(nlocs)]
    # dead-head matrices
    sym = rng.random() < 0.6
    dur = [[0] * nlocs for _ in range(nlocs)]
    dst = [[0] * nlocs for _ in range(nlocs)]
    for a in range(nlocs):
        for b in range(nlocs):
            if a == b:
                continue
            if sym and b < a:
                dur[a][b] = dur[b][a]
                dst[a][b] = dst[b][a]
            else:
                dur[a][b] = rng.choice([0, 300, 600, 900, 1200, 2400])
                dst[a][b] = rng.choice([0, 500, 1000, 3000, 8000, 2000000 if rng.random() < 0.05 else 1500])
    if rng.random() < 0.05 and nlocs >= 2:
        a, b = rng.sample(range(nlocs), 2)
        dur[a][b] = 5 * 86400  # exceeds planning duration -> capped
    # routes
    nroutes = rng.choice([1, 2, 2, 3, 4])
    routes = []
    # route-segment ids are references inside their route: in a third of the instances every route numbers its own
    # segments (seg_0, seg_1, ...), so the same id occurs in several routes
    local_seg_ids = rng.random() < 0.33
    for r in range(nroutes):
        t = rng.randrange(ntypes)
        nseg = rng.choice([1, 1, 2, 3])
        segs = []
        cur = rng.randrange(nlocs)
        for k in range(nseg):
            nxt = rng.choice([l for l in range(nlocs) if l != cur] or [cur])
            seg = {
                "id": ("seg_%d" % k) if local_seg_ids else ("r%d_s%d" % (r, k)),
                "order": k,
                "origin": "L%d" % cur,
                "destination": "L%d" % nxt,
                "distance": rng.choice([0, 500, 1000, 2500, 6000]),
                "duration": grid * rng.choice([1, 1, 2, 3]),
            }
            lim = rng.choice([None, None, None, 1, 2])
            if p.get("seg_limits") == "all":
                lim = rng.choice([1, 2])
            if p.get("seg_limits") == "none":
                lim = None
            if lim is not None:
                seg["maximalFormationCount"] = lim
            segs.append(seg)
            cur = nxt
        routes.append({"id": "r%d" % r, "vehicleType": "T%d" % t, "segments": segs})
    # every type should have a route with some probability (types without departures are 'odd')
    shunt_min = rng.choice([0, 0, 0, 300, 600])
    shunt_dht = rng.choice([0, 0, 300, 600])
    if p.get("zero_shunting"):
        shunt_min = 0
        shunt_dht = 0
    ndeps = p.get("ndeps", rng.choice([1, 2, 3, 3, 4, 5, 6]))
    horizon = rng.choice([8, 12, 20, 30]) * 3600
    departures = []
    dseg_count = 0
    maxsegs = p.get("max_dsegs", 9)
    for d in range(ndeps):
        if dseg_count >= maxsegs:
            break
        r = rng.randrange(nroutes)
        route = routes[r]
        t0 = grid * rng.randrange(0, max(1, horizon // grid))
        if p.get("tie_all"):
            t0 = grid * 4          # boundary profile: every departure starts at the same instant
        segs = []
        cur = t0
        for k, seg in enumerate(route["segments"]):
            if dseg_count >= maxsegs:
                break
            tinfo = types[int(route["vehicleType"][1:])]
            need = rng.choice([1, 1, 1, 2, 3])
            if rng.random() < 0.1:
                need = rng.choice([4, 6])
            pas = rng.choice([0, 1, tinfo["capacity"] * need - rng.randrange(0, 10), tinfo["capacity"] * need])
            pas = max(0, pas)
            seated = rng.choice([0, 1, min(pas, tinfo["seats"] * need), tinfo["seats"] * max(1, need - 1)])
            if rng.random() < 0.15 and pas > 0 and pas % tinfo["capacity"] == 0:
                # a full train whose seated demand is just above a multiple of the seats with the SAME integer quotient:
                # passengers / capacity == seated / seats although the seats need one vehicle more (seeded C07i)
                q = pas // tinfo["capacity"]
                seated = min(pas, q * tinfo["seats"] + rng.randrange(1, tinfo["seats"]))
            if p.get("seat_dominated") and rng.random() < 0.6:
                # the seat requirement needs more coupled vehicles than the passenger requirement
                pas = max(pas, tinfo["seats"] * (need + 1))
                seated = min(pas, tinfo["seats"] * (need + rng.choice([1, 2])))
            segs.append({
                "id": "d%d_s%d" % (d, k),
                "routeSegment": seg["id"],
                "departure": iso(cur),
                "passengers": pas,
                "seated": seated,
            })
            dseg_count += 1
            cur = cur + seg["duration"] + rng.choice([0, 0, shunt_min, grid])
        if segs:
            departures.append({"id": "d%d" % d, "route": route["id"], "segments": segs})
    if not departures:
        route = routes[0]
        seg = route["segments"][0]
        departures.append({"id": "d0", "route": route["id"], "segments": [{
            "id": "d0_s0", "routeSegment": seg["id"], "departure": iso(3600), "passengers": 10, "seated": 5}]})
    # maintenance slots
    slots = None
    slot_mode = p.get("slots", rng.choice(["none", "some", "some", "some"]))
    if slot_mode != "none":
        slots = []
        many = slot_mode == "many"     # slot-distribution profile: more slots, more tracks
        # slots without any track (valid: they host nobody, yet maintenance is "considered" and the search runs); in one
        # instance in twelve with slots ALL slots are such (seeded C16f)
        zero_tracks = slot_mode == "zero_tracks" or (not many and rng.random() < 0.08)
        for s in range(rng.choice([3, 4, 5, 6]) if many else rng.choice([1, 1, 2, 3])):
            st = grid * rng.randrange(0, max(1, horizon // grid))
            en = st + grid * rng.choice([1, 2, 4])
            slots.append({
                "id": "m%d" % s,
                "location": "L%d" % rng.randrange(nlocs),
                "start": iso(st),
                "end": iso(en),
                "trackCount": 0 if zero_tracks else (rng.choice([1, 2, 3, 4, 6]) if many else rng.choice([0, 1, 1, 1, 2, 3])),
            })
    # depots
    depot_mode = p.get("depots", rng.choice(["absent", "ample", "ample", "scarce", "restricted", "zero"]))
    depots = None
    if depot_mode != "absent":
        depots = []
        nd = rng.choice([1, 2, 2, 3])
        if depot_mode == "empty":
            nd = 0                 # boundary profile: `depots` given but empty — only the overflow depot exists
        for k in range(nd):
            if depot_mode == "ample":
                cap = rng.choice([20, 50])
            elif depot_mode == "scarce":
                cap = rng.choice([1, 1, 2])
            elif depot_mode == "zero":
                cap = rng.choice([0, 0, 1])
            else:
                cap = rng.choice([2, 5, 10])
            allowed = []
            for t in range(ntypes):
                if depot_mode == "restricted" and rng.random() < 0.4:
                    continue
                at = {"vehicleType": "T%d" % t}
                c = rng.choice([None, None, 1, 2, 5])
                if c is not None:
                    at["capacity"] = c
                allowed.append(at)
            depots.append({"id": "dep%d" % k, "location": "L%d" % rng.randrange(nlocs), "capacity": cap,
                           "allowedTypes": allowed})
    maxdist_mode = p.get("maxdist", rng.choice(["absent", "zero", "small", "mid", "large"]))
    params = {
        "shunting": {"minimalDuration": shunt_min, "deadHeadTripDuration": shunt_dht},
        "costs": {
            "staff": rng.choice([0, 1, 50]),
            "serviceTrip": rng.choice([0, 1, 10, 100]),
            "deadHeadTrip": rng.choice([0, 5, 50, 500]),
            "idle": rng.choice([0, 1, 20]),
        },
    }
    if p.get("positive_costs"):
        params["costs"] = {"staff": rng.choice([1, 50]), "serviceTrip": rng.choice([1, 10, 100]),
                           "deadHeadTrip": rng.choice([5, 50, 500]), "idle": rng.choice([1, 20])}
    if p.get("zero_costs"):
        params["costs"] = {"staff": 0, "serviceTrip": 0, "deadHeadTrip": 0, "idle": 0}
    mc = rng.choice([None, 0, 1, 15])
    if p.get("zero_costs"):
        mc = rng.choice([None, 0])
    if p.get("positive_costs") and mc == 0:
        mc = 1
    if mc is not None:
        params["costs"]["maintenance"] = mc
    fb = rng.choice([None, False, False, True])
    if p.get("forbid") is not None:
        fb = p["forbid"]
    if fb is not None:
        params["forbidDeadHeadTrips"] = fb
    if maxdist_mode != "absent":
        # "spread": anywhere in the range of a rotation cycle's total distance, so that a reordering can take a cycle's
        # counter from above the limit to below it (seeded C15f: replace_cycle crossing zero)
        md = {"zero": 0, "small": rng.choice([500, 1000, 3000]), "mid": rng.choice([5000, 7000, 12000]),
              "large": 10 ** 6, "spread": 0}[maxdist_mode]
        if maxdist_mode == "spread":
            md = rng.randrange(1000, 60000)
        params["maintenance"] = {"maximalDistance": md}
    # `indices` is a mapping: the matrices may list the locations in any order
    order = list(range(nlocs))
    if rng.random() < 0.4:
        rng.shuffle(order)
    dh_json = {"indices": ["L%d" % l for l in order],
               "durations": [[dur[a][b] for b in order] for a in order],
               "distances": [[dst[a][b] for b in order] for a in order]}
    # the segments of a route carry an explicit `order`; the list itself may come in any order
    if rng.random() < 0.3:
        for r in routes:
            rng.shuffle(r["segments"])
    inst = {
        "vehicleTypes": types,
        "locations": locs,
        "routes": routes,
        "departures": departures,
        "deadHeadTrips": dh_json,
        "parameters": params,
    }
    if depots is not None:
        inst["depots"] = depots
    if slots is not None:
        inst["maintenanceSlots"] = slots
    if p.get("time_forms", "some") != "canonical":
        vary_time_strings(inst, force=p.get("time_forms") == "all")
    return inst


BOUNDARY_PROFILES = [
    {"nlocs": 1}, {"nlocs": 1, "slots": "some"}, {"nlocs": 1, "tie_all": True, "slots": "some", "depots": "absent"},
    {"tie_all": True}, {"tie_all": True, "slots": "some", "zero_shunting": True}, {"ndeps": 1, "max_dsegs": 1},
    {"ndeps": 1, "max_dsegs": 1, "slots": "some", "ntypes": 2}, {"ndeps": 1, "max_dsegs": 1, "slots": "zero_tracks"},
    {"nlocs": 1, "ndeps": 1, "max_dsegs": 1, "depots": "zero"}, {"tie_all": True, "ntypes": 3, "depots": "scarce"},
    {"depots": "empty"}, {"depots": "empty", "slots": "some", "ntypes": 2},
]


def boundary_instances(rng, n):
    """instances at the edges of the valid input space: a single location (routes from a place to itself), every departure at
    the same instant, exactly one departure segment, combined with slots without tracks, empty depots, idle vehicle types"""
    return [gen_instance(rng, dict(BOUNDARY_PROFILES[k % len(BOUNDARY_PROFILES)])) for k in range(n)]


def _times(inst):
    """[(container, key)] of every time string of an instance"""
    out = []
    for d in inst["departures"]:
        for g in d["segments"]:
            out.append((g, "departure"))
    for g in inst.get("maintenanceSlots") or []:
        out += [(g, "start"), (g, "end")]
    return out


def py_seconds(s):
    return int((datetime.datetime.strptime(s, "%Y-%m-%dT%H:%M:%S") - BASE).total_seconds())


def vary_time_strings(inst, force=False):
    """One instance in seven lists its times in other forms DateTime::new accepts for the same instants: no seconds field,
    unpadded fields, a trailing Z, a blank for the T, and midnight as 24:00:00 of the day before — after shifting the whole
    timetable so that some activity boundary (preferably one where an arrival meets a departure) falls on midnight.  Its own
    random stream (derived from the instance), so that the main stream of the generator is unchanged."""
    r = random.Random(json.dumps(inst, sort_keys=True))
    if not force and r.random() >= 1 / 7:
        return
    ts = _times(inst)
    if not ts:
        return
    secs = {id(c): {} for c, _ in ts}
    for c, k in ts:
        secs[id(c)][k] = py_seconds(c[k])
    # candidate boundary: a departure / start that coincides with some arrival / end
    rdur = {(rt["id"], g["id"]): g["duration"] for rt in inst["routes"] for g in rt["segments"]}
    ends = set()
    for d in inst["departures"]:
        for g in d["segments"]:
            ends.add(py_seconds(g["departure"]) + rdur.get((d["route"], g["routeSegment"]), 0))
    for g in inst.get("maintenanceSlots") or []:
        ends.add(py_seconds(g["end"]))
    starts = [secs[id(c)][k] for c, k in ts if k != "end"]
    tied = [t for t in starts if t in ends]
    pivot = r.choice(tied) if tied and r.random() < 0.8 else r.choice(starts)
    shift = (-pivot) % 86400
    for c, k in ts:
        t = secs[id(c)][k] + shift
        dt = BASE + datetime.timedelta(seconds=t)
        y, mo, dd, h, mi, sc = dt.year, dt.month, dt.day, dt.hour, dt.minute, dt.second
        form = r.choice(["canon", "nosec", "unpadded", "z", "blank", "24", "24"])
        if form == "24" and (h, mi, sc) == (0, 0, 0):
            pv = dt - datetime.timedelta(days=1)
            c[k] = "%04d-%02d-%02dT24:00:00" % (pv.year, pv.month, pv.day)
        elif form == "nosec" and sc == 0:
            c[k] = "%04d-%02d-%02dT%02d:%02d" % (y, mo, dd, h, mi)
        elif form == "unpadded":
            c[k] = "%d-%d-%dT%d:%d:%d" % (y, mo, dd, h, mi, sc)
        elif form == "z":
            c[k] = "%04d-%02d-%02dT%02d:%02d:%02dZ" % (y, mo, dd, h, mi, sc)
        elif form == "blank":
            c[k] = "%04d-%02d-%02d %02d:%02d:%02d" % (y, mo, dd, h, mi, sc)
        else:
            c[k] = "%04d-%02d-%02dT%02d:%02d:%02d" % (y, mo, dd, h, mi, sc)


def encode(inst, perm=None):
    """Encoding for the OCaml driver: the instance as listed, every reference still an identifier (strings interned as
    integers — the only thing done here); the resolution of the references is RawLoad.resolve, in Coq."""
    ids = {}
    from . import timeconv
    timeconv.prime(timeconv.times_of_instance(inst))

    def I(x):
        return ids.setdefault(x, len(ids) + 1000)

    def o(x):
        return -1 if x is None else int(x)

    out = ["RAW", len(inst["vehicleTypes"])]
    for t in inst["vehicleTypes"]:
        out += [I(t["id"]), t["capacity"], t["seats"], o(t.get("maximalFormationCount"))]
    out.append(len(inst["locations"]))
    out += [I(l["id"]) for l in inst["locations"]]
    deps = inst.get("depots")
    if deps is None:
        out.append(-1)
    else:
        out.append(len(deps))
        for d in deps:
            out += [I(d["location"]), d["capacity"], len(d["allowedTypes"])]
            for a in d["allowedTypes"]:
                out += [I(a["vehicleType"]), o(a.get("capacity"))]
    out.append(len(inst["routes"]))
    for r in inst["routes"]:
        out += [I(r["id"]), I(r["vehicleType"]), len(r["segments"])]
        for g in r["segments"]:
            out += [I(g["id"]), I(g["origin"]), I(g["destination"]), g["distance"], g["duration"],
                    o(g.get("maximalFormationCount"))]
    out.append(len(inst["departures"]))
    for d in inst["departures"]:
        out += [I(d["route"]), len(d["segments"])]
        for g in d["segments"]:
            out += [I(g["routeSegment"]), time_token(g["departure"]), g["passengers"], g["seated"]]
    slots = inst.get("maintenanceSlots")
    if slots is None:
        out.append(-1)
    else:
        out.append(len(slots))
        for g in slots:
            out += [I(g["location"]), time_token(g["start"]), time_token(g["end"]), g["trackCount"]]
    dh = inst["deadHeadTrips"]
    out.append(len(dh["indices"]))
    out += [I(x) for x in dh["indices"]]
    for m in (dh["durations"], dh["distances"]):
        out.append(len(m))
        for row in m:
            out.append(len(row))
            out += row
    pr = inst["parameters"]
    out += [1 if pr.get("forbidDeadHeadTrips") else 0, pr["shunting"]["minimalDuration"],
            pr["shunting"]["deadHeadTripDuration"],
            (pr.get("maintenance") or {}).get("maximalDistance", 0),
            pr["costs"]["staff"], pr["costs"]["serviceTrip"], pr["costs"].get("maintenance", 0) or 0,
            pr["costs"]["deadHeadTrip"], pr["costs"]["idle"]]
    perm = perm if perm is not None else list(range(len(inst["locations"])))
    out.append(len(perm))
    out += perm
    return out


def encode_resolved(inst, perm=None):
    """The former encoding (references resolved here, in Python); kept for reading old replays and as a cross-check."""
    out = []
    tix = {t["id"]: k for k, t in enumerate(inst["vehicleTypes"])}
    lix = {l["id"]: k for k, l in enumerate(inst["locations"])}
    rix = {r["id"]: k for k, r in enumerate(inst["routes"])}

    def o(x):
        return -1 if x is None else int(x)

    out.append(len(inst["vehicleTypes"]))
    for t in inst["vehicleTypes"]:
        out += [t["capacity"], t["seats"], o(t.get("maximalFormationCount"))]
    nl = len(inst["locations"])
    out.append(nl)
    deps = inst.get("depots")
    if deps is None:
        out.append(-1)
    else:
        out.append(len(deps))
        for d in deps:
            out += [lix[d["location"]], d["capacity"], len(d["allowedTypes"])]
            for a in d["allowedTypes"]:
                out += [tix[a["vehicleType"]], o(a.get("capacity"))]
    out.append(len(inst["routes"]))
    for r in inst["routes"]:
        out += [tix[r["vehicleType"]], len(r["segments"])]
        for s in r["segments"]:
            out += [lix[s["origin"]], lix[s["destination"]], s["distance"], s["duration"],
                    o(s.get("maximalFormationCount"))]
    out.append(len(inst["departures"]))
    for d in inst["departures"]:
        r = inst["routes"][rix[d["route"]]]
        six = {s["id"]: k for k, s in enumerate(r["segments"])}
        out += [rix[d["route"]], len(d["segments"])]
        for s in d["segments"]:
            out += [six[s["routeSegment"]], from_iso(s["departure"]), s["passengers"], s["seated"]]
    slots = inst.get("maintenanceSlots")
    if slots is None:
        out.append(-1)
    else:
        out.append(len(slots))
        for s in slots:
            out += [lix[s["location"]], from_iso(s["start"]), from_iso(s["end"]), s["trackCount"]]
    dh = inst["deadHeadTrips"]
    idx = [lix[x] for x in dh["indices"]]
    durm = [[0] * nl for _ in range(nl)]
    dstm = [[0] * nl for _ in range(nl)]
    for a, ia in enumerate(idx):
        for b, ib in enumerate(idx):
            durm[ia][ib] = dh["durations"][a][b]
            dstm[ia][ib] = dh["distances"][a][b]
    for row in durm:
        out += row
    for row in dstm:
        out += row
    pr = inst["parameters"]
    out += [1 if pr.get("forbidDeadHeadTrips") else 0, pr["shunting"]["minimalDuration"],
            pr["shunting"]["deadHeadTripDuration"],
            (pr.get("maintenance") or {}).get("maximalDistance", 0),
            pr["costs"]["staff"], pr["costs"]["serviceTrip"], pr["costs"].get("maintenance", 0) or 0,
            pr["costs"]["deadHeadTrip"], pr["costs"]["idle"]]
    perm = perm if perm is not None else list(range(nl))
    out.append(len(perm))
    out += perm
    return out


if __name__ == "__main__":
    import sys
    rng = random.Random(int(sys.argv[1]) if len(sys.argv) > 1 else 0)
    inst = gen_instance(rng)
    print(json.dumps(inst, indent=1))
    print(encode(inst))
