"""Shared orchestration: builds, running harness/driver, diffing, evidence, verdicts."""
import concurrent.futures
import hashlib
import json
import os
import re
import shutil
import subprocess
import sys
import time

VERIF = os.path.dirname(os.path.dirname(os.path.abspath(__file__)))
REPO = "/repo"
BUILD = os.path.join(VERIF, "build")
COQ = os.path.join(VERIF, "coq")
EXTR = os.path.join(BUILD, "extracted")
TARGET = os.path.join(BUILD, "target")
HARNESS = os.path.join(VERIF, "harness")
DRIVER_SRC = os.path.join(VERIF, "driver")
CFG = "rssched_verif"
NPROC = 16

ENV = dict(os.environ)
ENV["CARGO_NET_OFFLINE"] = "true"
ENV["CARGO_TARGET_DIR"] = TARGET
ENV["RUSTFLAGS"] = "--cfg " + CFG
ENV["RAYON_NUM_THREADS"] = "2"


class BuildError(Exception):
    def __init__(self, stage, log):
        super().__init__(stage)
        self.stage = stage
        self.log = log


def sh(cmd, cwd=None, timeout=1800, env=None):
    p = subprocess.run(cmd, cwd=cwd, shell=isinstance(cmd, str), stdout=subprocess.PIPE,
                       stderr=subprocess.STDOUT, timeout=timeout, env=env or ENV)
    return p.returncode, p.stdout.decode("utf-8", "replace")


def lock(name):
    """Cross-process lock (checks of several properties may run concurrently)."""
    import fcntl
    os.makedirs(BUILD, exist_ok=True)
    f = open(os.path.join(BUILD, name + ".lock"), "w")
    fcntl.flock(f, fcntl.LOCK_EX)
    return f


def build_coq(targets=None):
    """Full .vo build of the Coq development (or the cone of the given .vo targets)."""
    lk = lock("coq")
    try:
        rc, out = sh("coq_makefile -f _CoqProject -o Makefile", cwd=COQ, timeout=120)
        if rc != 0:
            raise BuildError("coq_makefile", out)
        tg = " ".join(targets) if targets else ""
        rc, out = sh("timeout 3000 make -j%d %s" % (NPROC, tg), cwd=COQ, timeout=3100)
        if rc != 0:
            raise BuildError("coq", out)
        return out
    finally:
        lk.close()


def build_driver():
    lk = lock("driver")
    try:
        os.makedirs(EXTR, exist_ok=True)
        srcs = [os.path.join(COQ, f) for f in os.listdir(COQ) if f.endswith(".vo")]
        srcs += [os.path.join(DRIVER_SRC, f) for f in os.listdir(DRIVER_SRC)]
        srcs.append(os.path.join(COQ, "Extract.v"))
        newest = max(os.path.getmtime(s) for s in srcs)
        drv = os.path.join(EXTR, "driver")
        if os.path.exists(drv) and os.path.getmtime(drv) >= newest:
            return
        rc, out = sh("timeout 600 coqc -Q %s RS -o %s/Extract.vo %s/Extract.v" % (COQ, EXTR, COQ), cwd=EXTR,
                     timeout=700)
        if rc != 0:
            raise BuildError("extraction", out)
        for f in os.listdir(DRIVER_SRC):
            shutil.copy(os.path.join(DRIVER_SRC, f), EXTR)
        order = open(os.path.join(DRIVER_SRC, "ORDER")).read().split()
        rc, out = sh("ocamlfind ocamlopt -O2 -w -a -o driver.tmp model.mli model.ml %s" % " ".join(order),
                     cwd=EXTR, timeout=900)
        if rc != 0:
            raise BuildError("driver", out)
        os.replace(os.path.join(EXTR, "driver.tmp"), drv)
    finally:
        lk.close()


def build_harness(release=False):
    lk = lock("cargo")
    try:
        shutil.copy(os.path.join(REPO, "Cargo.lock"), os.path.join(HARNESS, "Cargo.lock"))
        cmd = "cargo build --offline" + (" --release" if release else "")
        rc, out = sh(cmd, cwd=HARNESS, timeout=3000)
        if rc != 0:
            raise BuildError("cargo", out)
        return os.path.join(TARGET, "release" if release else "debug", "rsverif")
    finally:
        lk.close()


def harness_bin(release=False):
    return os.path.join(TARGET, "release" if release else "debug", "rsverif")


DRIVER = os.path.join(EXTR, "driver")


def run_harness(cmd, case_path, out_path, release=False, timeout=120):
    try:
        p = subprocess.run([harness_bin(release), cmd, case_path, out_path], stdout=subprocess.DEVNULL,
                           stderr=subprocess.PIPE, timeout=timeout, env=ENV)
        if p.returncode != 0:
            return "EXIT %d %s" % (p.returncode, p.stderr.decode("utf-8", "replace")[-500:])
        return "OK"
    except subprocess.TimeoutExpired:
        return "TIMEOUT"


def run_driver(cmd, in_path, out_path, timeout=300):
    try:
        p = subprocess.run(["bash", "-c", "ulimit -s unlimited; exec %s %s %s %s" % (DRIVER, cmd, in_path, out_path)],
                           stdout=subprocess.DEVNULL, stderr=subprocess.PIPE, timeout=timeout)
        if p.returncode != 0:
            return "EXIT %d %s" % (p.returncode, p.stderr.decode("utf-8", "replace")[-500:])
        return "OK"
    except subprocess.TimeoutExpired:
        return "TIMEOUT"


def perm_of(lines, inst):
    """depot index -> location as printed by the harness run itself (HashMap order differs per process)"""
    for l in lines[:3]:
        if l.startswith("perm"):
            return [int(x) for x in l.split()[1:]]
    return None


def read_lines(path):
    try:
        with open(path) as f:
            return [l.rstrip("\n") for l in f]
    except FileNotFoundError:
        return []


def first_diff(a, b):
    """First differing line index and the two lines, or None."""
    for k in range(max(len(a), len(b))):
        x = a[k] if k < len(a) else "<missing>"
        y = b[k] if k < len(b) else "<missing>"
        if x != y:
            return k, x, y
    return None


def pmap(f, items, workers=NPROC):
    with concurrent.futures.ThreadPoolExecutor(max_workers=workers) as ex:
        return list(ex.map(f, items))


def case_hash(obj):
    return hashlib.sha1(json.dumps(obj, sort_keys=True).encode()).hexdigest()[:12]


def casedir(pid):
    shutil.rmtree(os.path.join(VERIF, "replays", pid), ignore_errors=True)
    d = os.path.join(BUILD, "cases", pid)
    shutil.rmtree(d, ignore_errors=True)
    os.makedirs(d, exist_ok=True)
    return d


def write_replay(pid, name, obj):
    d = os.path.join(VERIF, "replays", pid)
    os.makedirs(d, exist_ok=True)
    path = os.path.join(d, name + ".json")
    with open(path, "w") as f:
        json.dump(obj, f, indent=1)
    return path


def load_known_findings():
    path = os.path.join(VERIF, "known_findings.json")
    if not os.path.exists(path):
        return {"findings": [], "fixed": []}
    return json.load(open(path))


# ---------------------------------------------------------------------------------------------
# Proof side: lint, Print Assumptions, statement pins

FORBIDDEN = re.compile(r"\b(Admitted|admit|Axiom|Axioms|Parameter|Parameters|Conjecture|Hypothesis|Variable"
                       r")\b|Unset Guard|bypass_check|Admit Obligations|-type-in-type|impredicative-set|"
                       r"Unset Positivity|Unset Universe")
ALLOWED_AXIOMS = set()  # the development is closed under the global context


def strip_comments(src):
    out = []
    depth = 0
    i = 0
    while i < len(src):
        if src.startswith("(*", i):
            depth += 1
            i += 2
        elif src.startswith("*)", i) and depth > 0:
            depth -= 1
            i += 2
        else:
            if depth == 0:
                out.append(src[i])
            i += 1
    return "".join(out)


def lint_coq():
    """No Admitted/admit/Axiom/... anywhere; Variable/Hypothesis only inside Sections."""
    problems = []
    for f in sorted(os.listdir(COQ)):
        if not f.endswith(".v"):
            continue
        src = strip_comments(open(os.path.join(COQ, f)).read())
        depth = 0
        for ln, line in enumerate(src.split("\n"), 1):
            if re.match(r"\s*Section\b", line):
                depth += 1
            if re.match(r"\s*End\b", line) and depth > 0:
                depth -= 1
            for m in FORBIDDEN.finditer(line):
                w = m.group(0)
                if w in ("Variable", "Hypothesis") and depth > 0:
                    continue
                problems.append("%s:%d: %s" % (f, ln, w))
    return problems


def count_qed(files):
    n = 0
    for f in files:
        src = strip_comments(open(os.path.join(COQ, f)).read())
        n += len(re.findall(r"\b(Qed|Defined)\.", src))
    return n


def coq_deps(vfile):
    """Transitive RS.* dependencies of a .v file (by Require lines)."""
    seen = []

    def go(f):
        if f in seen or not os.path.exists(os.path.join(COQ, f)):
            return
        src = strip_comments(open(os.path.join(COQ, f)).read())
        for m in re.finditer(r"From RS Require (?:Import|Export)\s+([^.]*)\.", src):
            for mod in m.group(1).split():
                go(mod + ".v")
        seen.append(f)

    go(vfile)
    return seen


def check_property_file(pid):
    """Compile Properties file (P_<pid>.v), parse `Print Assumptions` output.
    Returns dict(ok, theorems, axioms, log, obligations)."""
    vfile = "P_%s.v" % pid
    res = {"ok": False, "theorems": [], "axioms": [], "log": "", "obligations": 0, "files": []}
    path = os.path.join(COQ, vfile)
    if not os.path.exists(path):
        res["log"] = "missing " + vfile
        return res
    try:
        build_coq([vfile + "o"])
    except BuildError as e:
        res["log"] = e.log[-3000:]
        return res
    # re-run coqc on the property file alone to capture Print Assumptions output
    rc, out = sh("timeout 900 coqc -Q . RS %s" % vfile, cwd=COQ, timeout=1000)
    res["log"] = out[-3000:]
    if rc != 0:
        return res
    src = strip_comments(open(path).read())
    thms = re.findall(r"\b(?:Theorem|Corollary)\s+(\w+)", src)
    pa = re.findall(r"Print Assumptions\s+(\w+)\.", src)
    res["theorems"] = thms
    missing = [t for t in thms if t not in pa]
    closed = out.count("Closed under the global context")
    axioms = []
    for m in re.finditer(r"^Axioms:\n((?:.+\n)+)", out, re.M):
        axioms += [l.split(":")[0].strip() for l in m.group(1).split("\n") if l and not l.startswith(" ")]
    res["axioms"] = sorted(set(axioms))
    bad = [a for a in res["axioms"] if a not in ALLOWED_AXIOMS]
    deps = coq_deps(vfile)
    res["files"] = deps
    res["obligations"] = count_qed(deps)
    res["ok"] = (not missing) and (not bad) and closed + (1 if axioms else 0) >= 1 and len(thms) > 0 \
        and closed >= len(pa) - (1 if axioms else 0)
    if missing:
        res["log"] += "\nno Print Assumptions for: " + ",".join(missing)
    if bad:
        res["log"] += "\naxioms not allowed: " + ",".join(bad)
    return res


def write_evidence(pid, tier, seed, level, coverage, assumptions, wall_s, violations):
    os.makedirs(os.path.join(VERIF, "evidence"), exist_ok=True)
    ev = {"property_id": pid, "tier": tier, "seed": seed, "level": level, "coverage": coverage,
          "assumptions": assumptions, "wall_s": round(wall_s, 2), "violations": violations}
    with open(os.path.join(VERIF, "evidence", pid + ".json"), "w") as f:
        json.dump(ev, f, indent=1)


TRUSTED_BASE = [
    "Coq 8.16.1 kernel (coqc); vm_compute for witnesses/examples; no native_compute",
    "Print Assumptions of every property theorem: Closed under the global context (no axioms)",
    "extraction: Coq Extraction with ExtrOcamlBasic only (its Extract Inductive for bool, option, unit, "
    "list, prod, sumbool, sumor); no Extract Constant; Z/positive/N/nat stay Coq datatypes; ocamlfind ocamlopt 4.13.1",
    "hand-written glue: OCaml driver (token parser/printers), Rust harness (dump code, hooks under "
    "--cfg rssched_verif), Python generator/comparator",
    "model is hand-written Gallina (Network/load, Tour, Transition, Flow network, Schedule with all modifications, Swaps "
    "with the neighbourhood enumeration and its provider rotation, the transition optimisation with the cycle TSP, the "
    "pipeline composition, schedule_to_json); tie to /repo is the correspondence check run on every check: operation "
    "histories, neighbourhood walks, rotation-cycle sequences and optimiser runs, whole solve runs (every stage snapshot, "
    "every accepted step of both local searches, the returned JSON) replayed on the model and compared line by line; every "
    "check compares all models in the cone of its theorems (gen/cone.py)",
    "oracles, constrained per run but not modelled: rs_graph network_simplex (flow certified by checked potentials), "
    "rayon min_by of the two parallel minimisers (pick contract checked on every recorded step), "
    "HashMap iteration orders (read from the same process' observations)",
    "the f32 operations of the slot distribution are modelled by hand (F32.v: round to nearest even on non-negative operands, "
    "NaN/infinity explicit; not Flocq, hence no real-number axioms) and compared with the hardware's operations bit by bit",
    "reference resolution (identifier -> index) is RawLoad.resolve in Coq; the Python encoder only interns identifier strings "
    "as integers; ISO time strings are converted to the model's seconds by the extracted Cal.parse_datetime (gen/timeconv.py "
    "asks the driver), Cal.v (rapid_time's DateTime::new, calendar conversions, as_iso, TimePoint + / - / order) is compared "
    "with rapid_time itself on every C17 / C03 run (family time)",
    "not modelled: serde parsing, machine integer widths other than the i64 guard of the flow "
    "network (FlowGuard.v; elsewhere Z, debug builds run with overflow checks), threads, sockets, OS",
]


# ---------------------------------------------------------------------------------------------
# Corpus, verdicts

def replay_case():
    """under `check.py <ID> --replay <path>` only the replayed case is run"""
    p = os.environ.get("VERIF_REPLAY")
    if not p:
        return None
    r = json.load(open(p))
    inst = r.get("instance")
    if isinstance(inst, dict) and "instance" in inst and "vehicleTypes" not in inst:
        return inst          # a full case (instance + tours/ops/...)
    if inst is None:
        return None
    return {"instance": inst}


def ncases(n):
    return 0 if os.environ.get("VERIF_REPLAY") else n


def load_corpus(pid):
    rc = replay_case()
    if os.environ.get("VERIF_REPLAY"):
        return [rc["instance"]] if rc else []
    d = os.path.join(VERIF, "corpus", pid)
    out = []
    if os.path.isdir(d):
        for f in sorted(os.listdir(d)):
            if f.endswith(".json"):
                out.append(json.load(open(os.path.join(d, f)))["instance"])
    return out


def load_corpus_cases(pid):
    if os.environ.get("VERIF_REPLAY"):
        rc = replay_case()
        return [rc] if rc and len(rc) > 1 else []
    d = os.path.join(VERIF, "corpus", pid)
    out = []
    if os.path.isdir(d):
        for f in sorted(os.listdir(d)):
            if f.endswith(".json"):
                out.append(json.load(open(os.path.join(d, f))))
    return out


def known_match(pid, what, detail, kf):
    """A failing case is a known finding iff a committed entry for this property names the same
    `what` class and its `match` regex matches the detail."""
    for e in kf.get("findings", []):
        if e["property"] == pid and e["what"] == what and re.search(e.get("match", ""), detail):
            return e
    return None


def conclude_diff(pid, tier, seed, t0, proof, results, check_impl, features, strip_model_prefixes=(),
                  model_flags=None, what="", extra_cov=None, level="proof", check_pair=None, extra_violations=None,
                  diff_to_failure=None, extra_violations_inst=None, extra_diffs=None):
    """Common verdict logic for model-vs-implementation line comparisons.
    results: list of dict(k, inst, hstatus, dstatus, impl, model)."""
    kf = load_known_findings()
    violations = []
    known = []
    diffs = []
    feats = {}
    distinct = set()
    nontrivial = set()
    samples = []
    for r in results:
        h = case_hash(r["inst"])
        distinct.add(h)
        fs = features(r["inst"], r["impl"])
        for f in fs:
            feats[f] = feats.get(f, 0) + 1
        if fs:
            nontrivial.add(h)
        if r["hstatus"] != "OK" or r["dstatus"] != "OK":
            diffs.append((r, "harness=%s driver=%s" % (r["hstatus"], r["dstatus"])))
            continue
        model = [l for l in r["model"] if not l.startswith(tuple(strip_model_prefixes))] \
            if strip_model_prefixes else r["model"]
        for flag in (model_flags or {}):
            if r["inst"].get("_refkind") == "unused_route_dangling":
                break       # deliberately outside the documented format (an unused route that names nothing): loads all the same
            pref = flag.split()[0]
            got = [l for l in r["model"] if l.startswith(pref + " ")]
            if got and got[0] != flag:
                diffs.append((r, "model flag %s, expected %s" % (got[0], flag)))
        fd = first_diff(r["impl"], model)
        if fd:
            # a difference on an observation whose model value is PROVED to be the documented value is a concrete
            # failing input of the property, not only a broken correspondence
            conc = diff_to_failure(r["inst"], r["impl"], model) if diff_to_failure else []
            if conc:
                for (w, detail) in conc[:3]:
                    e = known_match(pid, w, detail, kf)
                    if e:
                        known.append((e, r, detail))
                    else:
                        violations.append((w, r, detail))
            else:
                diffs.append((r, "line %d: impl=[%s] model=[%s]" % fd))
        found = check_pair(r["inst"], r["impl"], r["model"]) if check_pair else check_impl(r["inst"], r["impl"])
        for (w, detail) in found:
            e = known_match(pid, w, detail, kf)
            if e:
                known.append((e, r, detail))
            else:
                violations.append((w, r, detail))
        if len(samples) < 2 and len(r["impl"]) > 3:
            samples.append({"instance": r["inst"], "observations_head": r["impl"][:6]})
    for (case_, msg_) in (extra_diffs or []):
        diffs.append(({"inst": case_}, msg_))
    for (w, detail, inst_) in (extra_violations_inst or []):
        e = known_match(pid, w, detail, kf)
        if e:
            known.append((e, {"inst": inst_}, detail))
        else:
            violations.append((w, {"inst": inst_}, detail))
    for (w, detail) in (extra_violations or []):
        e = known_match(pid, w, detail, kf)
        if e:
            known.append((e, {"inst": {}}, detail))
        else:
            violations.append((w, {"inst": {"note": "pipeline run"}}, detail))
    rc = 0
    lines = []
    seen_known = set()
    for (e, r, detail) in known:
        if e["id"] not in seen_known:
            seen_known.add(e["id"])
            lines.append("KNOWN-FINDING: property=%s %s (%s)" % (pid, e["id"], e["summary"]))
    if violations:
        w, r, detail = violations[0]
        path = write_replay(pid, "%s-%s" % (w, case_hash(r["inst"])),
                            {"property": pid, "kind": "property-fails-on-implementation", "what": w,
                             "detail": detail, "instance": r["inst"]})
        lines.append("VIOLATION property=%s replay=%s" % (pid, path))
        rc = 1
    elif diffs:
        r, msg = diffs[0]
        path = write_replay(pid, "corr-%s" % case_hash(r["inst"]),
                            {"property": pid, "kind": "correspondence-broken",
                             "correspondence": "model vs implementation: " + what,
                             "first_difference": msg, "instance": r["inst"], "cases_differing": len(diffs)})
        lines.append("VIOLATION property=%s replay=%s no-failing-input-found" % (pid, path))
        rc = 1
    if not proof["ok"]:
        path = write_replay(pid, "proof", {"property": pid, "kind": "proof-obligation-broken",
                                           "theorems": proof["theorems"], "log": proof["log"]})
        if rc == 0:
            lines.append("VIOLATION property=%s replay=%s no-failing-input-found" % (pid, path))
        rc = 1
    lintp = lint_coq()
    if lintp:
        path = write_replay(pid, "lint", {"property": pid, "kind": "lint", "problems": lintp})
        if rc == 0:
            lines.append("VIOLATION property=%s replay=%s no-failing-input-found" % (pid, path))
        rc = 1
    cov = {
        "obligations": proof["obligations"], "discharged": proof["obligations"] if proof["ok"] else 0,
        "checker_cmd": "make -C coq P_%s.vo (coqc 8.16.1, full .vo) + coqc P_%s.v for Print Assumptions" % (pid, pid),
        "trusted_base": TRUSTED_BASE,
        "theorems": proof["theorems"], "axioms": proof["axioms"], "proof_files": proof["files"],
        "evaluations": len(results), "distinct_nontrivial": len(nontrivial),
        "rule": "seeded generator gen/instgen.py (+ corpus first); distinct = sha1 of the canonical case; "
                "non-trivial = exercises at least one listed feature; features counted below",
        "features": feats, "samples": samples,
        "traces_validated_against_impl": len([r for r in results if r["hstatus"] == "OK"]),
        "correspondence_differences": len(diffs), "property_failures_on_impl": len(violations),
        "known_findings_hit": sorted(seen_known), "compared": what,
    }
    if extra_cov:
        cov.update(extra_cov)
    write_evidence(pid, tier, seed, level, cov,
                   ["model = hand-written Gallina mirror; correspondence on generated cases bounds model/code distance",
                    "ISO time strings are converted by the extracted Cal.v (DateTime::new, calendar, as_iso modelled and compared with rapid_time on every C17 / C03 run); serde parsing itself is not modelled",
                    "machine integers modelled as Z (no overflow below validity bounds)"],
                   time.time() - t0, len(violations) + (1 if diffs else 0))
    for l in lines:
        print(l)
    print("%s: %d cases, %d correspondence differences, %d property failures, %d known; proof %s (%d obligations)"
          % (pid, len(results), len(diffs), len(violations), len(known), "ok" if proof["ok"] else "BROKEN",
             proof["obligations"]))
    return rc
