"""Parse the `net` observation lines of the harness into a dict used by case generators."""
import json
import os

from . import instgen, lib


class NetObs:
    def __init__(self, lines, inst):
        self.ok = bool(lines) and lines[0] == "load OK"
        self.nodes = {}
        self.reach = {}
        self.svc = {}
        self.maint = []
        self.sdepots = []
        self.edepots = []
        self.depots = {}
        self.overflow = None
        self.req = {}
        self.maxform = {}
        self.ntypes = 0
        for l in lines:
            p = l.split()
            if not p:
                continue
            if p[0] == "node":
                self.nodes[p[1]] = dict(x.split("=") for x in p[2:])
            elif p[0] == "reach":
                self.reach[p[1]] = set(p[3:])
            elif p[0] == "svc":
                self.svc[int(p[1])] = p[3:]
            elif p[0] == "maint":
                self.maint = p[2:]
            elif p[0] == "sdepots":
                self.sdepots = p[2:]
            elif p[0] == "edepots":
                self.edepots = p[2:]
            elif p[0] == "depot":
                self.depots[int(p[1])] = dict(x.split("=") for x in p[2:])
            elif p[0] == "overflow":
                self.overflow = (int(p[1]), p[2], p[3])
            elif p[0] == "ntypes":
                self.ntypes = int(p[1])
            elif p[0] == "req":
                self.req[p[2]] = int(p[3])
            elif p[0] == "maxform":
                self.maxform[p[1]] = None if p[2] == "-" else int(p[2])
        self.perm = None
        if inst.get("depots") is None:
            self.perm = [int(d["loc"]) for k, d in sorted(self.depots.items()) if d["loc"] != "N"]

    def start_key(self, n):
        s = self.nodes[n]["start"]
        return -10 ** 12 if s == "E" else (10 ** 12 if s == "L" else int(s))

    def usable_start_depots(self, ty):
        """start depot nodes whose depot can spawn a vehicle of this type in an empty schedule"""
        out = []
        for k, d in self.depots.items():
            caps = [int(c) for c in d["caps"].split(",")]
            if ty < len(caps) and caps[ty] > 0 and int(d["total"]) > 0:
                out.append(d["snode"])
        return out


def observe(inst, d, tag):
    cpath = os.path.join(d, "%s.net.json" % tag)
    with open(cpath, "w") as f:
        json.dump({"instance": inst}, f)
    hout = os.path.join(d, "%s.net.impl" % tag)
    st = lib.run_harness("net", cpath, hout)
    return NetObs(lib.read_lines(hout), inst), st


def random_chain(rng, obs, ty, density=0.5, allow_maint=True, candidates=None):
    """A random connectable chain of non-depot nodes of one type (service trips of ty + maintenance)."""
    # (a maintenance slot without tracks hosts nobody: no vehicle can be spawned through it, so it is not part of base chains)
    maint = [m for m in obs.maint if str(obs.nodes.get(m, {}).get("tracks", "1")) not in ("0",)]
    cands = candidates if candidates is not None else list(obs.svc.get(ty, [])) + (maint if allow_maint else [])
    cands = sorted(cands, key=lambda n: (obs.start_key(n), n))
    chain = []
    for n in cands:
        if rng.random() > density:
            continue
        if not chain or n in obs.reach.get(chain[-1], set()):
            chain.append(n)
    return chain
