"""Operation histories on schedules through the public modifications (C09, C10, C13)."""
import json
import os
import random
import time

from . import instgen, lib, netobs, solve, solvefam


def gen_ops(rng, obs, nops):
    ops = []
    nt = max(1, obs.ntypes)
    # start with a few spawns so that there is something to modify
    for k in range(nops):
        phase_spawn = k < 3 or rng.random() < 0.2
        kind = "spawn" if phase_spawn else rng.choice(
            ["spawn", "addpath", "addpath", "removeseg", "removeseg", "fit", "fit", "override", "override", "override",
             "delete", "spawn_dummy", "improve", "improve", "greedy_end", "recompute", "consistent_end", "movetrans"])
        if kind in ("spawn", "addpath"):
            ty = rng.randrange(nt)
            chain = netobs.random_chain(rng, obs, ty, density=rng.choice([0.2, 0.4, 0.7]))
            if not chain:
                continue
            r = rng.random()
            if r < 0.25:
                chain = [rng.choice(obs.sdepots)] + chain
            elif r < 0.4:
                chain = chain + [rng.choice(obs.edepots)]
            elif r < 0.55:
                chain = [rng.choice(obs.sdepots)] + chain + [rng.choice(obs.edepots)]
            if kind == "spawn":
                ops.append(["spawn", ty if rng.random() < 0.95 else rng.randrange(nt), chain])
            else:
                ops.append(["addpath", rng.randrange(64), chain])
        elif kind == "removeseg":
            i = rng.randrange(8)
            ops.append(["removeseg", rng.randrange(64), i, rng.choice([0, 0, 1, 2])])
        elif kind in ("fit", "override"):
            i = rng.randrange(8)
            pk = rng.randrange(64)
            # now and then provider = receiver (the API takes two arbitrary vehicle ids)
            ops.append([kind, pk, i, rng.choice([0, 0, 1, 2, 5]), pk if rng.random() < 0.12 else rng.randrange(64)])
        elif kind == "delete":
            ops.append(["delete", rng.randrange(64)])
        elif kind == "spawn_dummy":
            ops.append(["spawn_dummy", rng.randrange(64), rng.randrange(nt)])
        elif kind == "improve":
            ops.append(["improve", [] if rng.random() < 0.4 else [rng.randrange(64) for _ in range(rng.choice([1, 2, 3]))]])
        elif kind == "recompute":
            ops.append(["recompute", [] if rng.random() < 0.5 else [rng.randrange(nt)]])
        elif kind == "movetrans":
            ops.append(["movetrans", rng.randrange(64), rng.randrange(8)])
        else:
            ops.append([kind])
    # dummy scenario: a vehicle becomes a dummy tour; single inner nodes and then the rest of the dummy tour are moved
    # into real vehicles (gap checks inside dummy tours, dummy -> real moves)
    if rng.random() < 0.5:
        ops.append(["delete", rng.randrange(64)])
        for _ in range(rng.choice([1, 2, 3])):
            j = rng.randrange(8)
            ops.append([rng.choice(["override", "fit"]), 1000 + j, rng.choice([1, 1, 2]), 0, 2000 + rng.randrange(8)])
            ops.append([rng.choice(["override", "fit"]), 1000 + j, 0, rng.choice([5, 5, 2]), 2000 + rng.randrange(8)])
    # gap scenario: a chain a -> b -> c (-> d ...) in which a cannot reach c directly is spawned, turned into a dummy tour,
    # then exactly b is taken out of the dummy tour (must be refused: the gap a/c cannot be closed) and the rest of
    # the dummy tour is moved into real vehicles
    if rng.random() < 0.6:
        for _try in range(12):
            ty = rng.randrange(nt)
            ch = netobs.random_chain(rng, obs, ty, density=0.9)
            pos = [k for k in range(len(ch) - 2) if ch[k + 2] not in obs.reach.get(ch[k], set())]
            if pos:
                k = rng.choice(pos)
                # the gap triple in the middle, at the very start or at the very end of the dummy tour
                cut = rng.choice(["mid", "start", "end"])
                if cut == "start":
                    ch, k = ch[k:], 0
                elif cut == "end":
                    ch = ch[:k + 3]
                ops.append(["spawn", ty, ch])
                ops.append(["delete", 3000])
                ops.append([rng.choice(["override", "fit"]), 4000, k + 1, 0, 2000 + rng.randrange(8)])
                ops.append([rng.choice(["override", "fit"]), 4000, 0, len(ch), 2000 + rng.randrange(8)])
                ops.append(["override", 4000, max(0, k - 1), 3, 2000 + rng.randrange(8)])
                break
    # scenario tail: merge vehicles into common rotation cycles, then update several vehicles of one cycle in ONE
    # call (improve_depots with 2-3 vehicles, end-depot reassignments), so that the one-by-one transition updates
    # see each other's new tours
    if rng.random() < 0.7:
        for _ in range(rng.choice([1, 2, 3])):
            ops.append(["recompute", []])
            a = rng.randrange(64)
            lst = [a, a + 1] if rng.random() < 0.6 else [a, a + 1, a + 2]
            if rng.random() < 0.5:
                lst.reverse()        # successor listed before its predecessor (seeded C09e)
            ops.append(["improve", lst])
            if rng.random() < 0.5:
                ops.append([rng.choice(["greedy_end", "consistent_end"])])
            if rng.random() < 0.5:
                i = rng.randrange(8)
                ops.append([rng.choice(["fit", "override"]), rng.randrange(64), i, rng.choice([0, 1, 2]), rng.randrange(64)])
    # overflow scenario (C09: "also for tours using the infinitely distant overflow depot"): a tour on the overflow depot
    # gets ONE of its depots replaced by a real one through a path insertion, later the other one (both orders, also
    # both at once), with depot places freed by deleting vehicles first
    if rng.random() < 0.6:
        # fill the depots so that further vehicles start at the overflow depot
        for _ in range(rng.choice([0, 2, 4])):
            ty = rng.randrange(nt)
            ch = netobs.random_chain(rng, obs, ty, density=0.15)
            if ch:
                ops.append(["spawn", ty, ch[:2]])
        for _ in range(rng.choice([1, 2, 3])):
            if rng.random() < 0.6:
                ops.append(["delete", 2000 + rng.randrange(8)])
            ty = rng.randrange(nt)
            ch1 = netobs.random_chain(rng, obs, ty, density=0.3)
            ch2 = netobs.random_chain(rng, obs, ty, density=0.3)
            if not ch1 or not ch2:
                continue
            first = rng.choice(["start", "end", "both", "handover", "handover"])
            v = 5000 + rng.randrange(4)
            if first == "handover":
                # a real-depot vehicle hands its start depot and its activities (not its end depot) to a vehicle on the
                # overflow depot; then the receiver's overflow end depot is replaced through a path insertion
                ops.append([rng.choice(["override", "fit"]), 2000 + rng.randrange(8), 0, rng.choice([1, 2, 2, 3]), v])
                ops.append(["addpath", rng.choice([v, v, 3000]), ch2 + [rng.choice(obs.edepots)]])
            elif first == "start":
                ops.append(["addpath", v, [rng.choice(obs.sdepots)] + ch1])
                ops.append(["addpath", rng.choice([v, v, 3000]), ch2 + [rng.choice(obs.edepots)]])
            elif first == "end":
                ops.append(["addpath", v, ch1 + [rng.choice(obs.edepots)]])
                ops.append(["addpath", rng.choice([v, v, 3000]), [rng.choice(obs.sdepots)] + ch2])
            else:
                ops.append(["addpath", v, [rng.choice(obs.sdepots)] + ch1 + [rng.choice(obs.edepots)]])
            if rng.random() < 0.5:
                ops.append(["improve", []])
    # transition scenario: the optimiser's move (a vehicle to the end of another cycle, possibly emptying its own and
    # refilling an empty one) stored with set_next_day_transitions, then operations that add / remove / update vehicles
    # of those cycles (spawn reuses empty cycles; delete; improve)
    if rng.random() < 0.6:
        if rng.random() < 0.5:
            ops.append(["recompute", []])
        for _ in range(rng.choice([2, 3, 5])):
            ops.append(["movetrans", rng.randrange(64), rng.randrange(6)])
        for _ in range(rng.choice([1, 2, 3])):
            r = rng.random()
            if r < 0.5:
                ty = rng.randrange(nt)
                chain = netobs.random_chain(rng, obs, ty, density=rng.choice([0.2, 0.4]))
                if chain:
                    ops.append(["spawn", ty, chain])
            elif r < 0.7:
                ops.append(["delete", 2000 + rng.randrange(8)])
            elif r < 0.85:
                ops.append(["improve", [rng.randrange(64), rng.randrange(64)]])
            else:
                ops.append(["movetrans", rng.randrange(64), rng.randrange(6)])
    # 3-opt scenario (seeded C09l): vehicles gathered in cycle 0 of their type, then 3-opt reorderings of the cycle that holds a
    # picked vehicle (TransitionCycle::three_opt + Transition::replace_cycle — the move of the cycle TSP — stored with
    # set_next_day_transitions), then operations that re-price those vehicles
    if rng.random() < 0.5:
        ops.append(["recompute", []])
        for _ in range(rng.choice([3, 4, 6])):
            ops.append(["movetrans", rng.randrange(64), 0])
        for _ in range(rng.choice([1, 2, 3])):
            ops.append(["threeopt", rng.randrange(64), rng.randrange(50), rng.randrange(50), rng.randrange(50)])
        if rng.random() < 0.5:
            ops.append(["improve", [rng.randrange(64), rng.randrange(64)]])
    return ops


def opx_tokens(line):
    """OP line of the harness -> OPX tokens for the opscheck driver (only for successful operations)"""
    if "-> OK" not in line:
        return None
    head, tail = line.split(" -> OK")
    p = head.split()
    n, kind, args = p[1], p[2], p[3:]
    info = dict(x.split("=", 1) for x in tail.split() if "=" in x)
    lab = "op" + n
    if kind == "spawn":
        return "OPX %s spawn %s %d %s %s" % (lab, args[0], len(args) - 1, " ".join(args[1:]), info["new"])
    if kind == "spawn_dummy":
        return "OPX %s spawn_dummy %s %s %s" % (lab, args[0], args[1], info["new"])
    if kind == "delete":
        return "OPX %s delete %s" % (lab, args[0])
    if kind == "addpath":
        c = info.get("conflict", "-")
        cs = [] if c == "-" else c.split(",")
        return "OPX %s addpath %s %d %s %d %s" % (lab, args[0], len(args) - 1, " ".join(args[1:]),
                                                    -1 if c == "-" else len(cs), " ".join(cs))
    if kind == "removeseg":
        return "OPX %s removeseg %s %s %s" % (lab, args[0], args[1], args[2])
    if kind == "fit":
        return "OPX %s fit %s" % (lab, " ".join(args[:4]))
    if kind == "override":
        return "OPX %s override %s %s" % (lab, " ".join(args[:4]), info.get("dummy", "-"))
    if kind == "improve":
        vs = [] if not args or args[0] == "all" else args[0].split(",")
        return "OPX %s improve %d %s" % (lab, len(vs), " ".join(vs))
    if kind in ("greedy_end", "consistent_end"):
        return "OPX %s enddepots" % lab
    if kind in ("recompute", "movetrans", "threeopt"):
        return "OPX %s recompute" % lab   # transition-only operations: no activity, formation or depot changes
    return None


def run_case(args):
    d, k, inst, seed, nops = args
    rng = random.Random(seed * 1000003 + k)
    obs, st0 = netobs.observe(inst, d, "c%d" % k)
    if not obs.ok:
        return None
    ops = gen_ops(rng, obs, nops)
    return run_ops(d, k, inst, ops)


def enc_ops(ops):
    out = [str(len(ops))]
    for o in ops:
        k = o[0]
        if k == "spawn":
            out += [k, str(o[1]), str(len(o[2]))] + o[2]
        elif k == "spawn_dummy":
            out += [k, str(o[1]), str(o[2])]
        elif k == "delete":
            out += [k, str(o[1])]
        elif k == "addpath":
            out += [k, str(o[1]), str(len(o[2]))] + o[2]
        elif k == "removeseg":
            out += [k, str(o[1]), str(o[2]), str(o[3])]
        elif k in ("fit", "override"):
            out += [k] + [str(x) for x in o[1:5]]
        elif k in ("improve", "recompute"):
            out += [k, str(len(o[1]))] + [str(x) for x in o[1]]
        elif k == "movetrans":
            out += [k, str(o[1]), str(o[2])]
        elif k == "threeopt":
            out += [k] + [str(x) for x in o[1:5]]
        else:
            out += [k]
    return " ".join(out)


def norm_lines(lines):
    out = []
    for l in lines:
        if l.startswith("#"):
            continue
        out.append(" ".join(t for t in l.split() if not t.startswith("input_unchanged=")))
    return out


def run_ops(d, k, inst, ops):
    case = {"instance": inst, "ops": ops}
    cpath = os.path.join(d, "c%d.json" % k)
    with open(cpath, "w") as f:
        json.dump(case, f)
    hout = os.path.join(d, "c%d.impl" % k)
    st = lib.run_harness("ops", cpath, hout, timeout=120)
    impl = lib.read_lines(hout)
    res = {"inst": case, "k": k, "hstatus": st, "impl": impl, "status": "OK" if st == "OK" else st, "js": None,
           "chk": [], "dstatus": "OK", "oplines": [l for l in impl if l.startswith("OP ")],
           "panics": [l for l in impl if l.startswith("#panic")]}
    if st != "OK" or not impl or impl[0] != "load OK":
        res["status"] = "NOANSWER"
        return res
    perm = lib.perm_of(impl, inst)
    toks = []
    for l in res["oplines"]:
        t = opx_tokens(l)
        if t:
            toks.append(t)
    for (label, blk) in solve.sched_blocks(impl):
        toks += blk
    mpath = os.path.join(d, "c%d.min" % k)
    with open(mpath, "w") as f:
        f.write(" ".join(str(x) for x in instgen.encode(inst, perm)) + "\n" + "\n".join(toks) + "\n")
    mout = os.path.join(d, "c%d.chk" % k)
    res["dstatus"] = lib.run_driver("opscheck", mpath, mout, timeout=600)
    # the functional model of Schedule (Schedule.v) replays the same history: every line must be equal
    m2 = os.path.join(d, "c%d.mops" % k)
    with open(m2, "w") as f:
        f.write(" ".join(str(x) for x in instgen.encode(inst, perm)) + "\n" + enc_ops(ops) + "\n")
    m2out = os.path.join(d, "c%d.model" % k)
    st2 = lib.run_driver("opsmodel", m2, m2out, timeout=600)
    res["model_diff"] = None
    if st2 != "OK":
        res["model_diff"] = "driver: " + st2[:200]
    else:
        fd = lib.first_diff(norm_lines(impl), norm_lines(lib.read_lines(m2out)))
        if fd:
            res["model_diff"] = "line %d: impl=[%s] model=[%s]" % (fd[0], fd[1][:300], fd[2][:300])
    for l in lib.read_lines(mout):
        p = l.split()
        if p[0] == "CHK":
            res["chk"].append((p[1], dict(x.split("=") for x in p[2:])))
    return res


def op_of(r, label):
    """the OP line that produced the state with this label"""
    if label.startswith("op"):
        n = label[2:]
        for l in r["oplines"]:
            if l.split()[1] == n:
                return l
    return label


def features(case, r):
    f = set()
    for l in r.get("oplines", []):
        p = l.split()
        f.add("op_" + p[2])
        if "-> ERR" in l:
            f.add("err_outcome")
        if "-> PANIC" in l:
            f.add("panic_outcome")
    for l in r.get("impl", []):
        if l.startswith("D "):
            f.add("dummy_tours")
        if l.startswith("V ") and " INF " in l:
            f.add("overflow_depot_tour")
    return f


def failures(pid, case, r):
    bad = []
    if r["status"] != "OK":
        return bad
    if r["dstatus"] != "OK":
        return [("checker-crash", r["dstatus"][:300])]
    key = {"C09": "exact", "C10": "inv", "C13": "spec"}[pid]
    for (label, kv) in r["chk"]:
        v = kv.get(key, "ok")
        if v != "ok":
            bad.append(("%s-%s-after-%s" % (pid, v, op_of(r, label).split()[2] if label.startswith("op") else label),
                        "state %s (%s): %s clauses %s" % (label, op_of(r, label), key, v)))
            break
    if pid == "C13":
        for l in r["oplines"]:
            if "input_unchanged=0" in l:
                bad.append(("input-schedule-changed", l))
                break
    return bad


def main(pid, tier, seed, what):
    t0 = time.time()
    proof = lib.check_property_file(pid)
    lib.build_coq()
    lib.build_driver()
    lib.build_harness()
    n = lib.ncases(240 if tier == "quick" else 16000)
    nops = 25 if tier == "quick" else 40
    rng = random.Random(seed * 7919 + int(pid[1:]))
    d = lib.casedir(pid)
    profiles = [None, {"slots": "some"}, {"depots": "scarce", "slots": "some"}, {"depots": "scarce", "ntypes": 1},
                {"depots": "scarce", "ntypes": 2, "slots": "some", "maxdist": "mid"}, {"zero_shunting": True},
                {"depots": "zero"}, {"depots": "restricted", "ntypes": 2},
                {"depots": "ample", "ntypes": 1, "nlocs": 4, "slots": "some", "maxdist": "mid"},
                {"depots": "absent", "ntypes": 1, "nlocs": 4}]
    gen = [instgen.gen_instance(rng, rng.choice(profiles)) for _ in range(n)]
    results = []
    for k, c in enumerate(lib.load_corpus_cases(pid)):
        results.append(run_ops(d, k, c["instance"], c["ops"]))
    results += [r for r in lib.pmap(run_case, [(d, 1000 + k, inst, seed, nops) for k, inst in enumerate(gen)]) if r]
    nstates = sum(len(r["chk"]) for r in results)
    hist = {}
    for r in results:
        for l in r["oplines"]:
            p = l.split()
            out = p[p.index("->") + 1] if "->" in p else "?"
            key = "%s->%s" % (p[2], out)
            hist[key] = hist.get(key, 0) + 1
    for r in results:
        r["inst_full"] = r["inst"]
    return solvefam.conclude(pid, tier, seed, t0, proof, results, what, failures_fn=failures,
                             extra_cov={"states_checked": nstates, "operation_outcomes": hist,
                                        "operations": sum(len(r["oplines"]) for r in results),
                                        "panic_outcomes": sum(1 for r in results for l in r["oplines"] if "-> PANIC" in l)},
                             features_fn=features)
