"""Running the whole pipeline through the harness and evaluating the extracted checkers on the result."""
import json
import os

from . import instgen, lib


class IdMap:
    """ids of the input/output JSON -> the indices the model uses"""

    def __init__(self, inst, perm):
        self.tix = {t["id"]: k for k, t in enumerate(inst["vehicleTypes"])}
        self.lix = {l["id"]: k for k, l in enumerate(inst["locations"])}
        deps = inst.get("depots")
        self.dix = {}
        if deps is not None:
            for k, d in enumerate(deps):
                self.dix[d["id"]] = k
            nd = len(deps)
        else:
            perm = perm or list(range(len(inst["locations"])))
            for k, l in enumerate(perm):
                self.dix["depot_" + inst["locations"][l]["id"]] = k
            nd = len(perm)
        self.dix["OVERFLOW_DEPOT"] = nd
        c0 = 2 * (nd + 1)
        rtype = {r["id"]: self.tix[r["vehicleType"]] for r in inst["routes"]}
        flat = []
        for d in inst["departures"]:
            for s in d["segments"]:
                flat.append((s["id"], rtype[d["route"]]))
        self.segnode = {}
        pos = 0
        for t in range(len(inst["vehicleTypes"])):
            for (sid, ty) in flat:
                if ty == t:
                    self.segnode[sid] = "trip_%d" % (c0 + pos)
                    pos += 1
        self.slotnode = {}
        for k, s in enumerate(inst.get("maintenanceSlots") or []):
            self.slotnode[s["id"]] = "main_%d" % (c0 + pos + k)

    def loc(self, s):
        return "N" if s == "NOWHERE" else str(self.lix[s])

    @staticmethod
    def ts(s):
        if s == "EARLIEST":
            return "E"
        if s == "LATEST":
            return "L"
        return str(instgen.from_iso(s))


def out_tokens(inst, perm, js):
    """Token form of the returned JSON for the `outcheck` driver command."""
    m = IdMap(inst, perm)
    from . import timeconv
    timeconv.prime(timeconv.times_of_json(js))
    o = js["objectiveValue"]
    sch = js["schedule"]
    lines = ["OUT", "obj %d %d %d %d" % (o["unservedPassengers"], o["maintenanceViolation"], o["vehicleCount"], o["costs"])]
    for fleet in sch["fleet"]:
        ty = m.tix[fleet["vehicleType"]]
        for v in fleet["vehicles"]:
            segs = [(m.segnode[a["departureSegment"]], m.loc(a["origin"]), m.loc(a["destination"]),
                     m.ts(a["departure"]), m.ts(a["arrival"])) for a in v["departureSegments"]]
            slots = [(m.slotnode[a["maintenanceSlot"]], m.loc(a["location"]), m.loc(a["location"]),
                      m.ts(a["start"]), m.ts(a["end"])) for a in v["maintenanceSlots"]]

            def key(a):
                return (int(a[3]) if a[3] not in ("E", "L") else 0, int(a[4]) if a[4] not in ("E", "L") else 0)
            sorted_ok = all(key(x) <= key(y) for l in (segs, slots) for x, y in zip(l, l[1:]))
            acts = sorted(segs + slots, key=key)
            dhs = [(m.loc(d["origin"]), m.loc(d["destination"]), m.ts(d["departure"]), m.ts(d["arrival"]))
                   for d in v["deadHeadTrips"]]
            lines.append("VEH %s %d %d %d %d %d %s %d %s" % (
                v["id"], ty, m.dix[v["startDepot"]], m.dix[v["endDepot"]], 1 if sorted_ok else 0, len(acts),
                " ".join(" ".join(a) for a in acts), len(dhs), " ".join(" ".join(d) for d in dhs)))
        lines.append("CYC %d %d %s" % (ty, len(fleet["vehicleCycles"]),
                                       " ".join("%d %s" % (len(c), " ".join(c)) for c in fleet["vehicleCycles"])))
    for s in sch["departureSegments"]:
        lines.append("SEG %s %s %s %s %s %d %d %s" % (
            m.segnode[s["departureSegment"]], m.loc(s["origin"]), m.loc(s["destination"]), m.ts(s["departure"]),
            m.ts(s["arrival"]), m.tix[s["vehicleType"]], len(s["formation"]), " ".join(s["formation"])))
    for s in sch["maintenanceSlots"]:
        lines.append("SLOT %s %s %s %s %s 0 %d %s" % (
            m.slotnode[s["maintenanceSlot"]], m.loc(s["location"]), m.loc(s["location"]), m.ts(s["start"]),
            m.ts(s["end"]), len(s["formation"]), " ".join(s["formation"])))
    for dl in sch["depotLoads"]:
        for l in dl["load"]:
            lines.append("LOAD %d %d %d" % (m.dix[dl["depot"]], m.tix[l["vehicleType"]], l["spawnCount"]))
    for d in sch["deadHeadTrips"]:
        lines.append("DHT %s %s %s %s %d %s" % (m.loc(d["origin"]), m.loc(d["destination"]), m.ts(d["departure"]),
                                                m.ts(d["arrival"]), len(d["formation"]), " ".join(d["formation"])))
    lines.append("ENDOUT")
    return lines


def sched_blocks(impl):
    """The SCHED ... END blocks of a harness output, as (label, lines)."""
    blocks = []
    cur = None
    for l in impl:
        if l.startswith("SCHED "):
            cur = [l]
        elif cur is not None:
            cur.append(l)
            if l == "END":
                blocks.append((cur[0].split()[1], cur))
                cur = None
    return blocks


def run_solve(d, tag, inst, release=False, timeout=30, checks=True, pipemodel=False, entry="server"):
    """Run the pipeline on one instance; returns dict(status, js, impl, perm, outchk, chk, eval).
    entry: "server" = server::solve_instance, "internal" = internal::run (the second copy of the stage wiring)."""
    cpath = os.path.join(d, "%s.json" % tag)
    with open(cpath, "w") as f:
        json.dump({"instance": inst, "entry": entry}, f)
    hout = os.path.join(d, "%s.%s.impl" % (tag, "rel" if release else "dbg"))
    st = lib.run_harness("solve", cpath, hout, release=release, timeout=timeout)
    impl = lib.read_lines(hout)
    res = {"hstatus": st, "impl": impl, "status": "TIMEOUT" if st == "TIMEOUT" else "CRASH", "js": None,
           "perm": None, "outchk": {}, "chk": [], "eval": {}, "panic": "", "dstatus": "OK", "wire": {}}
    if st != "OK":
        return res
    res["perm"] = lib.perm_of(impl, inst)
    for l in impl:
        if l == "solve OK":
            res["status"] = "OK"
        elif l == "solve PANIC":
            res["status"] = "PANIC"
        elif l.startswith("#panic"):
            res["panic"] = l
        elif l.startswith("json "):
            res["js"] = json.loads(l[5:])
    if not checks:
        return res
    toks = []
    for (label, blk) in sched_blocks(impl):
        toks += blk
    if res["js"] is not None:
        try:
            toks += out_tokens(inst, res["perm"], res["js"])
        except KeyError as e:
            res["outchk"] = {"convert": "unknown id %s" % e}
    mpath = os.path.join(d, "%s.min" % tag)
    with open(mpath, "w") as f:
        f.write(" ".join(str(x) for x in instgen.encode(inst, res["perm"])) + "\n" + "\n".join(toks) + "\n")
    mout = os.path.join(d, "%s.chk" % tag)
    res["dstatus"] = lib.run_driver("outcheck", mpath, mout)
    for l in lib.read_lines(mout):
        p = l.split()
        if p[0] == "OUTCHK":
            res["outchk"].update(dict(x.split("=") for x in p[1:]))
        elif p[0] == "EVAL":
            res["eval"] = dict(x.split("=") for x in p[1:])
        elif p[0] == "CHK":
            res["chk"].append((p[1], dict(x.split("=") for x in p[2:])))
        elif p[0] in ("WIRE", "WIREJSON", "WIRESTART"):
            res["wire"][p[0]] = p[1]
    if res["status"] == "OK" and pipemodel:
        res["model_diff"] = pipeline_model_diff(d, tag, inst, res, impl)
    return res


def pipeline_model_diff(d, tag, inst, res, impl):
    """Replay of the whole run on the functional schedule model (PipelineSched.v, driver `pipemodel`): every stage
    snapshot the hooks recorded must equal the model's state, and every accepted local-search step must be one of
    the model's enumerated neighbours. Returns None or a description of the first difference."""
    blocks = sched_blocks(impl)
    labels = [l for (l, _) in blocks]
    if not labels or labels[0] != "mcf":
        return "no mcf snapshot recorded"
    # decoded tours per type, in the order in which from_tours spawned them: types ordered by their first vehicle id
    by_type, cur = {}, None
    for l in impl:
        p = l.split()
        if p[0] == "MCFTYPE":
            cur = int(p[1])
            by_type.setdefault(cur, [])
        elif p[0] == "FTOUR" and cur is not None:
            by_type[cur].append(p[1:])
    first_vid = {}
    for l in blocks[0][1]:
        p = l.split()
        if p[0] == "V" and p[2] != "MISSING":
            ty = int(p[2])
            n = int(p[1].split("_")[1])
            first_vid[ty] = min(first_vid.get(ty, n), n)
    order = sorted(by_type, key=lambda t: first_vid.get(t, 10 ** 9))
    tours = [(t, nodes) for t in order for nodes in by_type[t]]
    toks = ["%d" % len(tours)] + ["%d %d %s" % (t, len(n), " ".join(n)) for (t, n) in tours]
    for (_, blk) in blocks:
        toks += blk
    # the transitions recorded inside the transition optimisation (start per type, accepted steps, result)
    toks += [l for l in impl if l.split()[0] in ("TREC", "TC", "TEND")]
    if res["js"] is not None and "convert" not in res["outchk"]:
        toks += out_tokens(inst, res["perm"], res["js"])
    mpath = os.path.join(d, "%s.pipe" % tag)
    with open(mpath, "w") as f:
        f.write(" ".join(str(x) for x in instgen.encode(inst, res["perm"])) + "\n" + "\n".join(toks) + "\n")
    mout = os.path.join(d, "%s.pipemodel" % tag)
    st = lib.run_driver("pipemodel", mpath, mout, timeout=300)
    if st != "OK":
        return "driver: " + st[:200]
    model = lib.read_lines(mout)
    # the predicate deciding whether the local-search stage runs at all (Network::maintenance_considered): model vs code
    ci = [l.split()[1] for l in impl if l.startswith("CONSIDERED ")]
    cm = [l.split()[1] for l in model if l.startswith("MCONSIDERED ")]
    if ci and cm and ci[0] != cm[0]:
        return ("the local-search stage is %s although the model's maintenance_considered is %s (slots listed: %s)"
                % ("run" if ci[0] == "true" else "SKIPPED", cm[0], bool(inst.get("maintenanceSlots"))))
    for l in model:
        if "NOTFOUND" in l or "MODELFAIL" in l or "NEIGHPANIC" in l or "MISSING" in l.split()[-1:]:
            return "model: " + l
        if l.startswith("HYP2 ") and "false" in l:
            return "a hypothesis of the pipeline-never-crashes theorem does not hold on this run: " + l
        if l.startswith("HYP ") and "false" in l:
            return "a hypothesis of the end-to-end theorem does not hold on this run: " + l
        if l.startswith("RENDER") and l.split()[1] != "ok":
            return "returned JSON is not the rendering of the final schedule (Render.v): " + l
        p = l.split()
        if p[0] == "HYP3" and "false" in l:
            return "a hypothesis of the optimiser-terminates theorem does not hold on this run: " + l
        if p[0] == "TSTART" and p[2] != "ok":
            return "transition optimiser (TOpt.v): start transition is not the search result's: " + l
        if p[0] == "TSTEP" and p[-1] != "ok":
            return ("transition optimiser (TOpt.v): accepted step is not a minimal, strictly improving neighbour of the "
                    "model (1521 not a model neighbour, 1522 not minimal, 1523 not improving): " + l)
        if p[0] == "TSTOP" and (p[-2] != "ok" or p[-1] != "result=ok"):
            return ("transition optimiser (TOpt.v): stopped although a model neighbour is strictly better (1524), or the "
                    "transition handed back is not the last accepted one: " + l)
        if p[0] == "TWIRE" and p[2] != "ok":
            return "the cycles of the opt stage are not the ones the transition optimiser handed back: " + l
        if l.startswith("TRANSVALID") and l.split()[2] != "ok":
            return "optimised transitions violate the bookkeeping invariant w.r.t. the search result: " + l
    mblocks = sched_blocks(model)
    if [l for (l, _) in mblocks] != labels:
        return "stages differ: impl %s model %s" % (labels, [l for (l, _) in mblocks])
    for (li, bi), (lm, bm) in zip(blocks, mblocks):
        fd = lib.first_diff(bi, bm)
        if fd:
            return "stage %s line %d: impl=[%s] model=[%s]" % (li, fd[0], fd[1][:300], fd[2][:300])
    return None
