"""Checks that run the whole pipeline (server::solve_instance) on generated instances and evaluate the
extracted Coq checkers on the returned JSON and on the stage snapshots: C01-C07, C16."""
import json
import os
import random
import time

from . import instgen, lib, solve

# per property: which result fields decide, a description, and generator profiles
CONF = {
    "C01": {"out": ["c01"], "what": "itineraries of the returned JSON: depots at both ends, >=1 activity, chronological, "
                                     "every consecutive pair connectable under the documented rule, type match"},
    "C02": {"out": ["c02"], "snap_inv": ["1004"], "what": "formation / track / depot capacity limits of the returned JSON "
                                                            "(limits on type, segment, both, neither)"},
    "C03": {"out": ["c03"], "what": "completeness of the output and agreement of vehicle view and trip view, depot loads, "
                                     "dead-head trips"},
    "C04": {"out": ["c04"], "snap_exact": True, "what": "reported objective = independent evaluation of the returned schedule; "
                                                         "cached aggregates of every stage snapshot = recomputation"},
    "C05": {"out": ["c05"], "what": "vehicle cycles partition each type's vehicles; end depot = start depot of the successor"},
    "C07": {"out": ["c07"], "monotone_unserved": True, "what": "unserved passengers = lower bound; never increases over the stages"},
    "C16": {"wire": True, "what": "stage snapshots of one solve call against each other and against the returned JSON"},
}


def profile_for(pid, rng):
    r = rng.random()
    if pid == "C16" and r >= 0.6 and r < 0.85:
        # several vehicle types, each with its own rotation cycles (the loop over the types in solve_instance / internal::run
        # and the map handed to set_next_day_transitions: seeded C16j keeps only the last type's optimised cycles)
        return {"slots": "many", "ntypes": rng.choice([2, 3]), "maxdist": rng.choice(["small", "mid", "spread"]),
                "ndeps": rng.choice([5, 6]), "depots": rng.choice(["ample", "absent"])}
    if pid in ("C05", "C16", "C04"):
        # several rotation cycles: maintenance slots, mid maximalDistance, spread depots
        if r < 0.6:
            return {"slots": "some", "maxdist": rng.choice(["small", "mid", "mid"]), "ndeps": rng.choice([4, 5, 6]),
                    "depots": rng.choice(["ample", "absent", "restricted"])}
    if pid == "C02":
        if r < 0.3:
            return {"type_limits": "none", "seg_limits": "all"}
        if r < 0.5:
            return {"type_limits": "all", "seg_limits": "none"}
        if r < 0.7:
            return {"depots": rng.choice(["scarce", "restricted", "zero"])}
    if pid == "C01":
        if r < 0.3:
            return {"zero_shunting": True}
        if r < 0.5:
            return {"forbid": True}
    return None


def features(inst, res):
    f = set()
    if inst.get("depots") is None:
        f.add("default_depots")
    if inst.get("maintenanceSlots"):
        f.add("maintenance")
    if inst["parameters"].get("forbidDeadHeadTrips"):
        f.add("forbid_dh")
    if inst["parameters"]["shunting"]["minimalDuration"] == 0:
        f.add("zero_shunting")
    if len(inst["vehicleTypes"]) > 1:
        f.add("multi_type")
    if any(t.get("maximalFormationCount") is None for t in inst["vehicleTypes"]) and \
            any(s.get("maximalFormationCount") is not None for r in inst["routes"] for s in r["segments"]):
        f.add("segment_only_limit")
    js = res.get("js")
    if js:
        sch = js["schedule"]
        if any(len(s["formation"]) > 1 for s in sch["departureSegments"]):
            f.add("coupled_vehicles")
        if any(v["startDepot"] == "OVERFLOW_DEPOT" for fl in sch["fleet"] for v in fl["vehicles"]):
            f.add("overflow_depot_used")
        if any(len([c for c in fl["vehicleCycles"] if c]) > 1 for fl in sch["fleet"]):
            f.add("several_cycles")
        if any(len(c) > 1 for fl in sch["fleet"] for c in fl["vehicleCycles"]):
            f.add("cycle_longer_than_one")
        if js["objectiveValue"]["unservedPassengers"] > 0:
            f.add("unserved_positive")
        if js["objectiveValue"]["maintenanceViolation"] > 0:
            f.add("violation_positive")
        if sch["deadHeadTrips"]:
            f.add("dead_head_trips")
    nsteps = len([1 for (l, _) in res.get("chk", []) if l == "ls_step"])
    if nsteps > 0:
        f.add("local_search_steps")
    return f


def failures(pid, inst, res):
    """list of (what, detail) for this property on one pipeline run"""
    cf = CONF[pid]
    bad = []
    if res["status"] != "OK":
        return bad   # no answer: C06's business
    if res["dstatus"] != "OK":
        bad.append(("checker-crash", res["dstatus"][:300]))
        return bad
    if "convert" in res["outchk"]:
        bad.append(("output-unknown-id", res["outchk"]["convert"]))
    for k in cf.get("out", []):
        v = res["outchk"].get(k)
        if v is None:
            bad.append(("checker-missing", k))
        elif v != "ok":
            bad.append(("%s-clause-%s" % (pid, v), "clauses %s of check_%s fail on the returned JSON; eval=%s reported=%s"
                        % (v, pid, res.get("eval"), res["js"]["objectiveValue"] if res["js"] else None)))
    for code in cf.get("snap_inv", []):
        for (label, chk) in res["chk"]:
            if code in chk.get("inv", "").split(","):
                bad.append(("%s-snapshot-%s" % (pid, code), "stage %s violates invariant clause %s" % (label, code)))
                break
    if cf.get("snap_exact"):
        for (label, chk) in res["chk"]:
            if chk.get("exact") != "ok":
                bad.append(("%s-snapshot-inexact-%s" % (pid, chk.get("exact")),
                            "stage %s: cached aggregates differ from recomputation (clauses %s)" % (label, chk.get("exact"))))
                break
    if cf.get("monotone_unserved"):
        # unserved (sum of both components) over mcf, start, ls steps, ls_result, opt, final
        seq = []
        for (label, blk) in solve.sched_blocks(res["impl"]):
            p = blk[0].split()
            seq.append((label, int(p[5]) + int(p[6])))
        for (a, b) in zip(seq, seq[1:]):
            if b[1] > a[1]:
                bad.append(("C07-unserved-increases", "unserved %d at %s -> %d at %s" % (a[1], a[0], b[1], b[0])))
                break
    if cf.get("wire"):
        # the transition-optimisation stage handed back a transition that a single move of its own neighbourhood improves
        # (TSTOP clause 1524 of the replay on TOpt.v; the neighbourhood is the model's, compared with the code's on every
        # run): the stage was skipped or cut short, the answer does not carry "the rotation cycles chosen by the
        # transition optimisation" (seeded C16h)
        md = res.get("model_diff") or ""
        if md.startswith("transition optimiser (TOpt.v): stopped although") and " 1524 " in md:
            bad.append(("C16-optimiser-stage-skipped-or-cut-short", md[:300]))
        # the cycles the `opt` stage carries for a type are not the ones the transition optimiser handed back for it (TWIRE:
        # hook record of the optimiser's result against the hook snapshot of the next stage — both the code's own
        # observations): "the reported vehicle cycles are exactly the optimiser's cycles" fails (seeded C16j)
        if md.startswith("the cycles of the opt stage are not the ones the transition optimiser handed back"):
            bad.append(("C16-optimised-cycles-not-carried", md[:300]))
        for k in ("WIRE", "WIREJSON", "WIRESTART"):
            v = res["wire"].get(k)
            if v is None:
                bad.append(("wiring-missing", k))
            elif v != "ok":
                bad.append(("C16-wiring-%s" % v, "%s clauses %s: the returned schedule is not reassign(set_transitions("
                            "local-search result, optimised transitions))" % (k, v)))
        # the local-search stage runs exactly when the instance lists maintenance slots (Network::maintenance_considered,
        # Network.v): an answer produced without it is not "the start solution improved by the local search"
        ci = [l.split()[1] for l in res["impl"] if l.startswith("CONSIDERED ")]
        want = "true" if inst.get("maintenanceSlots") else "false"
        if ci and ci[0] != want:
            bad.append(("C16-search-stage-%s" % ("skipped" if want == "true" else "run-without-slots"),
                        "the instance lists %d maintenance slot(s) but the predicate that guards the local-search stage is %s"
                        % (len(inst.get("maintenanceSlots") or []), ci[0])))
    return bad


def run_one(args):
    d, k, inst = args[:3]
    # every fourth run goes through the command-line wiring (internal::run) instead of the server's — every second one
    # for C16, whose subject is the wiring itself; corpus instances go through both (explicit entry)
    period = 2 if os.path.basename(d) == "C16" else 4
    entry = args[3] if len(args) > 3 else ("internal" if k % period == period - 1 else "server")
    # every fifth run uses the optimised (release) build of the harness — the build users deploy; same hooks, same replay
    release = args[4] if len(args) > 4 else (k % 5 == 2)
    res = solve.run_solve(d, "c%d" % k, inst, release=release, pipemodel=True, entry=entry)
    res["inst"] = inst
    res["k"] = k
    res["entry"] = entry
    res["build"] = "release" if release else "debug"
    return res


def main(pid, tier, seed):
    t0 = time.time()
    proof = lib.check_property_file(pid)
    lib.build_coq()
    lib.build_driver()
    lib.build_harness()
    lib.build_harness(release=True)
    n = lib.ncases(180 if tier == "quick" else 12000)
    rng = random.Random(seed * 7919 + int(pid[1:]))
    d = lib.casedir(pid)
    corpus = lib.load_corpus(pid)
    insts = corpus + [instgen.gen_instance(rng, profile_for(pid, rng)) for _ in range(n)]
    if not os.environ.get("VERIF_REPLAY"):
        insts += instgen.boundary_instances(random.Random(seed * 131 + int(pid[1:])), 12 if tier == "quick" else 200)
    jobs = [(d, k, inst) for k, inst in enumerate(insts)]
    # corpus instances: both entry points in the debug build, and the optimised build
    jobs = [(d, k, inst) for k, inst in enumerate(insts) if k >= len(corpus)]
    for j, inst in enumerate(corpus):
        jobs += [(d, j, inst, "server", False), (d, len(insts) + 2 * j, inst, "internal", False),
                 (d, len(insts) + 2 * j + 1, inst, "server", True)]
    results = lib.pmap(run_one, jobs)
    return conclude(pid, tier, seed, t0, proof, results, CONF[pid]["what"])


def conclude(pid, tier, seed, t0, proof, results, what, failures_fn=None, extra_cov=None, features_fn=None):
    kf = lib.load_known_findings()
    violations, known, feats = [], [], {}
    nontrivial, samples, statuses = set(), [], {}
    answered = 0
    for r in results:
        inst = r["inst"]
        h = lib.case_hash(inst)
        fs = (features_fn or features)(inst, r)
        for f in fs:
            feats[f] = feats.get(f, 0) + 1
        statuses[r["status"]] = statuses.get(r["status"], 0) + 1
        if r["status"] == "OK":
            answered += 1
        if r.get("steps") or len(r.get("lines", {}).get("TRAJ", [])) > 1:
            fs.add("accepted_steps")
            feats["accepted_steps"] = feats.get("accepted_steps", 0) + 1
        if r.get("ncand"):
            fs.add("candidates")
        if fs and r["status"] == "OK":
            nontrivial.add(h)
        for (w, detail) in (failures_fn or failures)(pid, inst, r):
            e = lib.known_match(pid, w, detail, kf)
            if e:
                known.append((e, r, detail))
            else:
                violations.append((w, r, detail))
        if len(samples) < 2 and r.get("js"):
            samples.append({"instance": inst, "objectiveValue": r["js"]["objectiveValue"],
                            "stages": [l for (l, _) in r.get("chk", [])]})
        elif len(samples) < 2 and (r.get("lines") or r.get("events")):
            samples.append({"instance": inst, "observations": r.get("lines") or r.get("events")[:6]})
    corr = [(r, r["model_diff"]) for r in results if r.get("model_diff")]
    # correspondence of the rest of the proof cone (gen/cone.py): the models the cited theorems depend on, compared with
    # the code on fresh operation histories / walks / tour and rotation-cycle operations
    from . import cone
    cone_diffs, cone_counts = cone.cone_correspondence(pid, tier, seed, lib.casedir(pid))
    rc = 0
    lines = []
    seen = set()
    for (e, r, detail) in known:
        if e["id"] not in seen:
            seen.add(e["id"])
            lines.append("KNOWN-FINDING: property=%s %s (%s)" % (pid, e["id"], e["summary"]))
    if violations:
        w, r, detail = violations[0]
        path = lib.write_replay(pid, "%s-%s" % (w.replace(",", "_"), lib.case_hash(r["inst"])),
                                {"property": pid, "kind": "property-fails-on-implementation", "what": w,
                                 "detail": detail, "instance": r["inst"]})
        lines.append("VIOLATION property=%s replay=%s" % (pid, path))
        rc = 1
    if corr and rc == 0:
        r, msg = corr[0]
        path = lib.write_replay(pid, "corr-%s" % lib.case_hash(r["inst"]),
                                {"property": pid, "kind": "correspondence-broken",
                                 "correspondence": "functional model of Schedule (Schedule.v) vs implementation: " + what,
                                 "first_difference": msg, "instance": r["inst"], "cases_differing": len(corr)})
        lines.append("VIOLATION property=%s replay=%s no-failing-input-found" % (pid, path))
        rc = 1
    if cone_diffs and rc == 0:
        fam, case, msg = cone_diffs[0]
        path = lib.write_replay(pid, "cone-%s" % lib.case_hash(case),
                                {"property": pid, "kind": "correspondence-broken", "family": fam,
                                 "correspondence": "a model in the cone of this property's theorems differs from the code: "
                                                   + cone.NAMES.get(fam, fam),
                                 "first_difference": msg, "case": case, "cases_differing": len(cone_diffs)})
        lines.append("VIOLATION property=%s replay=%s no-failing-input-found" % (pid, path))
        rc = 1
    if not proof["ok"]:
        path = lib.write_replay(pid, "proof", {"property": pid, "kind": "proof-obligation-broken",
                                               "theorems": proof["theorems"], "log": proof["log"]})
        if rc == 0:
            lines.append("VIOLATION property=%s replay=%s no-failing-input-found" % (pid, path))
        rc = 1
    lintp = lib.lint_coq()
    if lintp:
        path = lib.write_replay(pid, "lint", {"property": pid, "kind": "lint", "problems": lintp})
        if rc == 0:
            lines.append("VIOLATION property=%s replay=%s no-failing-input-found" % (pid, path))
        rc = 1
    cov = {
        "obligations": proof["obligations"], "discharged": proof["obligations"] if proof["ok"] else 0,
        "checker_cmd": "make -C coq P_%s.vo (coqc 8.16.1, full .vo) + coqc P_%s.v for Print Assumptions" % (pid, pid),
        "trusted_base": lib.TRUSTED_BASE + ["oracles (rs_graph simplex, rayon min_by, HashMap orders, f32 slot "
                                            "distribution) are not modelled: their results are observed through "
                                            "the stage snapshots and checked by the extracted checkers"],
        "theorems": proof["theorems"], "axioms": proof["axioms"], "proof_files": proof["files"],
        "evaluations": len(results), "distinct_nontrivial": len(nontrivial),
        "rule": "seeded generator gen/instgen.py with property-specific profiles (+ corpus first); one pipeline run "
                "(debug build, hooks on) per instance; non-trivial = pipeline answered and the instance/result has at "
                "least one listed feature; distinct = sha1 of the instance",
        "features": feats, "samples": samples, "pipeline_outcomes": statuses,
        "traces_validated_against_impl": answered,
        "property_failures_on_impl": len(violations), "known_findings_hit": sorted(seen), "compared": what,
        "correspondence_differences": len(corr),
        "cone_correspondence_cases": cone_counts, "cone_correspondence_differences": len(cone_diffs),
        "builds": {b: len([r for r in results if r.get("build") == b]) for b in ("debug", "release")},
        "entry_points": {e: len([r for r in results if r.get("entry") == e]) for e in ("server", "internal")
                         if any(r.get("entry") == e for r in results)},
    }
    if extra_cov:
        cov.update(extra_cov)
    lib.write_evidence(pid, tier, seed, "proof", cov,
                       ["checkers are Coq functions extracted to OCaml; they read the implementation's JSON/snapshots",
                        "the theorems are about the checkers' meaning and about the model; the pipeline itself is "
                        "observed, not modelled end to end (nondeterministic engines)",
                        "times enter as seconds; ids are mapped to indices by gen/solve.py"],
                       time.time() - t0, len(violations))
    for l in lines:
        print(l)
    print("%s: %d runs %s, %d correspondence differences (+%d in the cone: %s), %d property failures, %d known; proof %s (%d obligations)"
          % (pid, len(results), statuses, len(corr), len(cone_diffs), cone_counts, len(violations), len(known),
             "ok" if proof["ok"] else "BROKEN", proof["obligations"]))
    return rc
