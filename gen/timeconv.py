"""ISO time string -> seconds relative to the base date 2000-01-01T00:00:00, computed by the extracted Coq function
Cal.rel_seconds (driver command `time`, operation `rel`), not by Python: every time of every instance and of every
returned JSON enters the model through Cal.parse_datetime.  Results are cached per process; `prime` converts a batch
with one driver call.  None means DateTime::new panics on the string (per the model)."""
import os
import tempfile

from . import lib

_cache = {}


def codes(s):
    return "%d %s" % (len(s), " ".join(str(ord(c)) for c in s))


def prime(strings):
    miss = sorted({s for s in strings if isinstance(s, str) and s not in _cache and s not in ("EARLIEST", "LATEST")})
    if not miss:
        return
    d = os.path.join(lib.BUILD, "tmp")
    os.makedirs(d, exist_ok=True)
    fd, inp = tempfile.mkstemp(prefix="tc%d_" % os.getpid(), suffix=".min", dir=d)
    with os.fdopen(fd, "w") as f:
        f.write("\n".join("rel " + codes(s) for s in miss) + "\n")
    outp = inp[:-4] + ".out"
    st = lib.run_driver("time", inp, outp)
    if st != "OK":
        raise RuntimeError("time conversion by the driver failed: " + st)
    lines = lib.read_lines(outp)
    if len(lines) != len(miss):
        raise RuntimeError("time conversion: %d answers for %d strings" % (len(lines), len(miss)))
    for s, l in zip(miss, lines):
        v = l.split(" -> ")[1]
        _cache[s] = None if v == "PANIC" else int(v)
    os.unlink(inp)
    os.unlink(outp)


def rel(s):
    if s not in _cache:
        prime([s])
    return _cache[s]


def times_of_instance(inst):
    out = []
    for d in inst.get("departures") or []:
        for g in d.get("segments") or []:
            out.append(g.get("departure"))
    for g in inst.get("maintenanceSlots") or []:
        out += [g.get("start"), g.get("end")]
    return out


def times_of_json(js):
    """every string value under a time-valued key of a returned JSON"""
    out = []

    def walk(x):
        if isinstance(x, dict):
            for k, v in x.items():
                if k in ("departure", "arrival", "start", "end") and isinstance(v, str):
                    out.append(v)
                else:
                    walk(v)
        elif isinstance(x, list):
            for y in x:
                walk(y)
    walk(js)
    return out
