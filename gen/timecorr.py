"""Correspondence of the calendar model (coq/Cal.v) with rapid_time as /repo uses it: the harness sub-command `time`
(DateTime::new, as_iso, + / - Duration, DateTime - DateTime, derived order) and the extracted functions on the same
operation list.  Strings: canonical ISO, the variants DateTime::new accepts (no seconds, unpadded fields, 'Z', blank for 'T',
'+' signs, hour 24, seconds above 59), calendar boundaries (leap days, century years, the 400-year cycle, year 0 and years
beyond 9999) and malformed ones (both sides must panic)."""
import json
import os

from . import lib, timeconv

MDAYS = [31, 28, 31, 30, 31, 30, 31, 31, 30, 31, 30, 31]


def leap(y):
    return y % 4 == 0 and (y % 100 != 0 or y % 400 == 0)


def rand_date(rng):
    r = rng.random()
    if r < 0.35:
        y = rng.randrange(1990, 2040)
    elif r < 0.55:
        y = rng.choice([0, 1, 3, 4, 99, 100, 101, 399, 400, 401, 1600, 1700, 1900, 1999, 2000, 2001, 2100, 2399, 2400, 9999,
                        10000, 123456, 4294967295])
    else:
        y = rng.randrange(0, 12000)
    m = rng.choice([1, 2, 2, 2, 3, 12, rng.randrange(1, 13)])
    dm = MDAYS[m - 1] + (1 if m == 2 and leap(y) else 0)
    d = rng.choice([1, dm, dm, rng.randrange(1, dm + 1)])
    return y, m, d


def fmt(rng, y, m, d, h, mi, s, style):
    if style == "canon":
        return "%04d-%02d-%02dT%02d:%02d:%02d" % (y, m, d, h, mi, s)
    if style == "nosec":
        return "%04d-%02d-%02dT%02d:%02d" % (y, m, d, h, mi)
    if style == "unpadded":
        return "%d-%d-%dT%d:%d:%d" % (y, m, d, h, mi, s)
    if style == "z":
        return "%04d-%02d-%02dT%02d:%02d:%02dZ" % (y, m, d, h, mi, s)
    if style == "blank":
        return "%04d-%02d-%02d %02d:%02d:%02d" % (y, m, d, h, mi, s)
    if style == "plus":
        return "+%d-+%d-%02dT+%d:%02d:+%d" % (y, m, d, h, mi, s)
    return "%04d-%02d-%02dT%02d:%02d:%02d" % (y, m, d, h, mi, s)


def rand_time(rng, strict=False):
    y, m, d = rand_date(rng)
    h = rng.choice([0, 0, 23, 23, rng.randrange(0, 24)])
    mi = rng.choice([0, 59, rng.randrange(0, 60)])
    s = rng.choice([0, 0, 59, rng.randrange(0, 60)])
    style = rng.choice(["canon", "canon", "canon", "nosec", "unpadded", "z", "blank", "plus"])
    if not strict:
        r = rng.random()
        if r < 0.12:
            h, mi, s = 24, 0, 0
        elif r < 0.16:
            h = 24
        elif r < 0.22:
            s = rng.choice([60, 61, 99, 255])
    if style == "nosec":
        s = 0
    return fmt(rng, y, m, d, h, mi, s, style)


MALFORMED = ["", "2023-07-24", "2023-07-24T12", "2023-07-24T12:00:00:00", "2023-13-01T00:00:00", "2023-00-10T00:00:00",
             "2023-02-29T12:00:00", "2024-02-30T12:00:00", "2023-04-31T00:00:00", "2023-07-00T00:00:00", "2023-07-24T25:00:00",
             "2023-07-24T12:60:00", "2023-07-24T12:00:256", "2023-07-24T12:00:00.5", "2023-07-24T12:00:00+01:00",
             "4294967296-01-01T00:00:00", "2023-07-24T-1:00:00", "20x3-07-24T12:00:00", "2023-07-24T12:00: 5", "2023-07-24TT12:00",
             "2023-07-24T12:00:+", "2023-07-24T12::00", "Z2023-07-24T12:00:00", "2023-07-2ZZ4T12:00:00", "2023-7-24T1Z2:00",
             "２０２３-07-24T12:00:00", "2023-07-24T12:00:00Z", "2023-256-24T12:00:00", "2023-07-300T12:00:00", "0000-01-01T00:00:00",
             "4294967295-12-31T23:59:59"]


def gen_ops(rng, n):
    ops = [["parse", s] for s in MALFORMED]
    mid = ["2023-07-24T24:00:00", "2023-07-25T00:00:00", "2023-07-24T23:59:99", "2023-07-25T00:00:10", "2023-12-31T24:00:00",
           "2024-01-01T00:00", "2024-02-28T24:00:00", "2024-02-29T00:00:00", "2100-02-28T24:00", "2100-03-01T00:00:00"]
    for a in mid:
        for b in mid:
            ops += [["cmp", a, b], ["diff", a, b]]
    # every day number of two 400-year cycles' boundaries and a sweep of day numbers through as_iso
    for dn in list(range(0, 800)) + list(range(146097 - 400, 146097 + 400)) + list(range(730000, 730120 * 1 + 800)):
        ops.append(["add", "0000-01-01T00:00:00", str(dn * 86400 + rng.choice([0, 1, 86399]))])
    while len(ops) < n:
        k = rng.choice(["parse", "parse", "cmp", "add", "add", "sub", "diff", "days"])
        if k == "parse":
            ops.append(["parse", rand_time(rng)])
        elif k in ("cmp", "diff"):
            a = rand_time(rng)
            b = rand_time(rng) if rng.random() < 0.6 else a[:11] + rand_time(rng)[-8:]
            ops.append([k, a, b])
        elif k == "days":
            ops.append(["add", "0000-01-01T00:00:00", str(rng.randrange(0, 4000000) * 86400 + rng.randrange(0, 86400))])
        else:
            l = rng.choice([0, 1, 59, 60, 86399, 86400, 86401, rng.randrange(0, 10 ** rng.randrange(1, 12))])
            ops.append([k, rand_time(rng), str(l)])
    return ops


def run(pid, rng, n, tag="time"):
    d = lib.casedir(pid)
    ops = gen_ops(rng, n)
    cpath = os.path.join(d, tag + ".json")
    with open(cpath, "w") as f:
        json.dump({"ops": ops}, f)
    hout = os.path.join(d, tag + ".impl")
    st = lib.run_harness("time", cpath, hout, timeout=120)
    mpath = os.path.join(d, tag + ".min")
    with open(mpath, "w") as f:
        for o in ops:
            f.write(o[0] + " " + timeconv.codes(o[1]) + " " + (o[2] if o[0] in ("add", "sub") else timeconv.codes(o[2]) if len(o) > 2 else "") + "\n")
    mout = os.path.join(d, tag + ".model")
    ds = lib.run_driver("time", mpath, mout)
    impl, model = lib.read_lines(hout), lib.read_lines(mout)
    diffs = []
    if st != "OK" or ds != "OK" or len(impl) != len(model):
        diffs.append("harness %s driver %s lines %d/%d" % (st, ds[:100], len(impl), len(model)))
    diffs += ["op %s: impl '%s' model '%s'" % (json.dumps(ops[int(a.split()[0])], ensure_ascii=True)[:120], a, b)
              for a, b in zip(impl, model) if a != b]
    kinds = {}
    for o in ops:
        kinds[o[0]] = kinds.get(o[0], 0) + 1
    return {"ops": len(ops), "kinds": kinds, "panics": sum(1 for l in impl if l.endswith("PANIC")),
            "non_normalised_inputs": sum(1 for o in ops if o[0] == "parse" and ("T24" in o[1] or o[1].endswith(("60", "61", "99", "255")))),
            "diffs": diffs[:10], "ndiffs": len(diffs)}


def cone_family(pid, tier, seed, rng=None):
    """(violations, info) for checks that are not routed through solvefam / opsfam (C17): Cal.v against rapid_time"""
    import random
    n = 120000 if tier == "thorough" else 5000
    r = run(pid, random.Random(seed * 7919 + 13), n, "timecone")
    return r
