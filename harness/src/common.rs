// Shared helpers: loading under catch_unwind, canonical printing of ids, times, distances.
use model::base_types::{Distance, Location, NodeIdx};
use model::network::Network;
use rapid_time::{DateTime, Duration};
use std::panic::{catch_unwind, AssertUnwindSafe};
use std::sync::Arc;

pub const BASE: &str = "2000-01-01T00:00:00";

pub static LAST_PANIC: std::sync::Mutex<String> = std::sync::Mutex::new(String::new());

/// `#panic <location> <message>` — informational line (ignored by the comparator)
pub fn panic_note() -> String {
    format!("#panic {}", LAST_PANIC.lock().unwrap())
}

pub fn guarded<T>(f: impl FnOnce() -> T) -> Result<T, ()> {
    catch_unwind(AssertUnwindSafe(f)).map_err(|_| ())
}

pub fn load(instance: &serde_json::Value) -> Result<Arc<Network>, ()> {
    let inst = instance.clone();
    guarded(move || model::json_serialisation::load_rolling_stock_problem_instance_from_json(inst))
}

pub fn dt(t: DateTime) -> String {
    match t {
        DateTime::Earliest => "E".to_string(),
        DateTime::Latest => "L".to_string(),
        p => {
            let base = DateTime::new(BASE);
            if p >= base {
                format!("{}", (p - base).in_sec().unwrap())
            } else {
                format!("-{}", (base - p).in_sec().unwrap())
            }
        }
    }
}

pub fn dur(d: Duration) -> String {
    match d.in_sec() {
        Ok(s) => format!("{}", s),
        Err(_) => "INF".to_string(),
    }
}

pub fn dist(d: Distance) -> String {
    match d {
        Distance::Distance(m) => format!("{}", m),
        Distance::Infinity => "INF".to_string(),
    }
}

pub fn loc(l: Location) -> String {
    match l {
        Location::Station(i) => format!("{}", i.0),
        Location::Nowhere => "N".to_string(),
    }
}

pub fn nid(n: NodeIdx) -> String {
    format!("{}", n)
}

pub fn ids(v: &[NodeIdx]) -> String {
    v.iter().map(|n| nid(*n)).collect::<Vec<_>>().join(" ")
}

pub fn opt<T: std::fmt::Display>(o: Option<T>) -> String {
    match o {
        Some(x) => format!("{}", x),
        None => "-".to_string(),
    }
}

/// depot index -> location for the real depots (the HashMap-order oracle when depots are defaulted)
pub fn perm_line(nw: &Network) -> String {
    let mut depots: Vec<_> = nw.depots_iter().collect();
    depots.sort();
    let (od, _, _) = nw.overflow_depot_idxs();
    let v: Vec<String> = depots
        .iter()
        .filter(|d| **d != od)
        .map(|d| loc(nw.get_depot(*d).location()))
        .collect();
    format!("perm {}", v.join(" "))
}
