// `f32`: the hardware's binary32 operations used by distribute_maintenance_slots (u64 as f32, /, +, partial_cmp),
// printed as bit patterns — compared with the hand-written model F32.v.
use std::fmt::Write;

fn bits(v: &serde_json::Value) -> f32 {
    f32::from_bits(v.as_u64().unwrap() as u32)
}

pub fn run(case: &serde_json::Value, out: &mut String) {
    for op in case["ops"].as_array().unwrap() {
        let a = op.as_array().unwrap();
        match a[0].as_str().unwrap() {
            "u64" => {
                let n: u64 = a[1].as_str().unwrap().parse().unwrap();
                writeln!(out, "u64 {} -> {}", n, (n as f32).to_bits()).unwrap();
            }
            "div" => {
                let (x, y) = (bits(&a[1]), bits(&a[2]));
                let r = 1.0 * x / y;
                let rb = if r.is_nan() { "NAN".to_string() } else { r.to_bits().to_string() };
                writeln!(out, "div {} {} -> {}", x.to_bits(), y.to_bits(), rb).unwrap();
            }
            "add" => {
                let (x, y) = (bits(&a[1]), bits(&a[2]));
                let r = x + y;
                let rb = if r.is_nan() { "NAN".to_string() } else { r.to_bits().to_string() };
                writeln!(out, "add {} {} -> {}", x.to_bits(), y.to_bits(), rb).unwrap();
            }
            "cmp" => {
                let (x, y) = (bits(&a[1]), bits(&a[2]));
                let r = match x.partial_cmp(&y) {
                    None => "NONE",
                    Some(std::cmp::Ordering::Less) => "LT",
                    Some(std::cmp::Ordering::Equal) => "EQ",
                    Some(std::cmp::Ordering::Greater) => "GT",
                };
                writeln!(out, "cmp {} {} -> {} ge1={}", x.to_bits(), y.to_bits(), r, x >= 1.0).unwrap();
            }
            _ => {}
        }
    }
}
