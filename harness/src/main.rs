// Harness for the correspondence check: runs the real rssched-solver code on a case file and
// writes canonical observation lines. Every API call that may panic runs under catch_unwind.
mod common;
mod f32ops;
mod mcf;
mod net;
mod ops;
mod sched;
mod search;
mod solve;
mod timeops;
mod tour;
mod trans;

use std::env;
use std::fs;
use std::io::Write;

fn main() {
    let args: Vec<String> = env::args().collect();
    if args.len() < 4 {
        eprintln!("usage: rsverif <cmd> <case.json> <out.txt>");
        std::process::exit(2);
    }
    let cmd = args[1].as_str();
    let case: serde_json::Value =
        serde_json::from_str(&fs::read_to_string(&args[2]).expect("read case")).expect("parse case");
    // silence the default panic message (panics are expected outcomes and are reported as lines)
    std::panic::set_hook(Box::new(|info| {
        let loc = info.location().map(|l| format!("{}:{}", l.file(), l.line())).unwrap_or_default();
        let msg = if let Some(s) = info.payload().downcast_ref::<&str>() {
            s.to_string()
        } else if let Some(s) = info.payload().downcast_ref::<String>() {
            s.clone()
        } else {
            String::new()
        };
        *common::LAST_PANIC.lock().unwrap() = format!("{} {}", loc, msg.replace('\n', " "));
    }));
    let mut out = String::new();
    match cmd {
        "net" => net::run(&case, &mut out),
        "tour" => tour::run(&case, &mut out),
        "solve" => solve::run(&case, &mut out),
        "trans" => trans::run(&case, &mut out),
        "mcf" => mcf::run(&case, &mut out),
        "f32" => f32ops::run(&case, &mut out),
        "time" => timeops::run(&case, &mut out),
        "ops" => ops::run(&case, &mut out),
        "lsearch" => search::run_lsearch(&case, &mut out),
        "neigh" => search::run_neigh(&case, &mut out),
        _ => {
            eprintln!("unknown command {}", cmd);
            std::process::exit(2);
        }
    }
    let mut f = fs::File::create(&args[3]).expect("create out");
    f.write_all(out.as_bytes()).expect("write out");
}
