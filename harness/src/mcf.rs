// `mcf`: the min-cost-flow start solution with the recorded flow network, flow and decoded tours (C14, C07).
use crate::common::*;
use crate::sched::dump_schedule;
use solver::min_cost_flow_solver::MinCostFlowSolver;
use std::fmt::Write;

pub fn run(case: &serde_json::Value, out: &mut String) {
    let nw = match load(&case["instance"]) {
        Err(_) => {
            writeln!(out, "load PANIC").unwrap();
            return;
        }
        Ok(nw) => nw,
    };
    writeln!(out, "load OK").unwrap();
    writeln!(out, "{}", perm_line(&nw)).unwrap();
    let _ = solver::verif_hooks::take_mcf();
    let r = guarded(|| MinCostFlowSolver::initialize(nw.clone()).solve());
    for l in solver::verif_hooks::take_mcf() {
        writeln!(out, "{}", l).unwrap();
    }
    match r {
        Err(_) => {
            writeln!(out, "mcf PANIC").unwrap();
            writeln!(out, "{}", panic_note()).unwrap();
        }
        Ok(s) => {
            writeln!(out, "mcf OK").unwrap();
            dump_schedule(&s, "mcf", out);
        }
    }
}
