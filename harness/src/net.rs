// `net`: every public getter of Network after loading (C17 observations).
use crate::common::*;
use model::base_types::{Location, NodeIdx, VehicleTypeIdx};
use model::network::nodes::Node;
use model::network::Network;
use std::fmt::Write;

pub fn sorted_nodes(nw: &Network) -> Vec<NodeIdx> {
    let mut v: Vec<NodeIdx> = nw.all_nodes().collect();
    v.sort();
    v
}

pub fn dump_network(nw: &Network, out: &mut String) {
    let types: Vec<VehicleTypeIdx> = nw.vehicle_types().iter().collect();
    writeln!(out, "planning {}", dur(nw.planning_days())).unwrap();
    writeln!(out, "ntypes {}", types.len()).unwrap();
    writeln!(out, "nservice {}", nw.number_of_service_nodes()).unwrap();
    let nodes = sorted_nodes(nw);
    for &n in nodes.iter() {
        let node = nw.node(n);
        let (kind, ty, pass, seated, limit, tracks, depot) = match node {
            Node::StartDepot((_, d)) => ("S", "-".to_string(), "-".to_string(), "-".to_string(), "-".to_string(), "-".to_string(), format!("{}", d.depot_idx().0)),
            Node::EndDepot((_, d)) => ("E", "-".to_string(), "-".to_string(), "-".to_string(), "-".to_string(), "-".to_string(), format!("{}", d.depot_idx().0)),
            Node::Service((_, s)) => (
                "V",
                format!("{}", s.vehicle_type().0),
                format!("{}", s.passengers()),
                format!("{}", s.seated()),
                opt(s.maximal_formation_count()),
                "-".to_string(),
                "-".to_string(),
            ),
            Node::Maintenance((_, m)) => ("M", "-".to_string(), "-".to_string(), "-".to_string(), "-".to_string(), format!("{}", m.track_count()), "-".to_string()),
        };
        writeln!(
            out,
            "node {} kind={} start={} end={} sloc={} eloc={} dist={} type={} pass={} seated={} limit={} tracks={} depot={}",
            nid(n), kind, dt(node.start_time()), dt(node.end_time()), loc(node.start_location()), loc(node.end_location()),
            dist(node.travel_distance()), ty, pass, seated, limit, tracks, depot
        )
        .unwrap();
    }
    let mut depots: Vec<_> = nw.depots_iter().collect();
    depots.sort();
    for d in depots.iter() {
        let dp = nw.get_depot(*d);
        let caps: Vec<String> = types.iter().map(|t| format!("{}", nw.capacity_of(*d, *t))).collect();
        writeln!(
            out,
            "depot {} loc={} total={} caps={} snode={} enode={}",
            d.0, loc(dp.location()), nw.total_capacity_of(*d), caps.join(","),
            nid(nw.get_start_depot_node(*d)), nid(nw.get_end_depot_node(*d))
        )
        .unwrap();
    }
    let (od, os, oe) = nw.overflow_depot_idxs();
    writeln!(out, "overflow {} {} {}", od.0, nid(os), nid(oe)).unwrap();
    for t in types.iter() {
        let v: Vec<NodeIdx> = nw.service_nodes(*t).collect();
        writeln!(out, "svc {} : {}", t.0, ids(&v)).unwrap();
    }
    let v: Vec<NodeIdx> = nw.maintenance_nodes().collect();
    writeln!(out, "maint : {}", ids(&v)).unwrap();
    writeln!(out, "considered {}", nw.maintenance_considered()).unwrap();
    let v: Vec<NodeIdx> = nw.start_depot_nodes().collect();
    writeln!(out, "sdepots : {}", ids(&v)).unwrap();
    let v: Vec<NodeIdx> = nw.end_depot_nodes().collect();
    writeln!(out, "edepots : {}", ids(&v)).unwrap();
    let v: Vec<NodeIdx> = nw.all_nodes().collect();
    writeln!(out, "allbystart : {}", ids(&v)).unwrap();
    let v: Vec<NodeIdx> = nw.all_service_nodes().collect();
    writeln!(out, "allservice : {}", ids(&v)).unwrap();
    for &a in nodes.iter() {
        let v: Vec<NodeIdx> = nodes.iter().copied().filter(|&b| nw.can_reach(a, b)).collect();
        writeln!(out, "reach {} : {}", nid(a), ids(&v)).unwrap();
    }
    for t in types.iter() {
        let v: Vec<NodeIdx> = nw.nodes_of_vehicle_type_sorted_by_start(*t).collect();
        writeln!(out, "bystart {} : {}", t.0, ids(&v)).unwrap();
        for &a in nodes.iter() {
            let v: Vec<NodeIdx> = nw.successors(*t, a).collect();
            writeln!(out, "succ {} {} : {}", t.0, nid(a), ids(&v)).unwrap();
            let v: Vec<NodeIdx> = nw.predecessors(*t, a).collect();
            writeln!(out, "pred {} {} : {}", t.0, nid(a), ids(&v)).unwrap();
        }
    }
    for &n in nodes.iter() {
        if nw.node(n).is_service() {
            let t = nw.vehicle_type_for(n);
            writeln!(out, "req {} {} {}", t.0, nid(n), nw.number_of_vehicles_required_to_serve(t, n)).unwrap();
            writeln!(out, "maxform {} {}", nid(n), opt(nw.maximal_formation_count_for(n))).unwrap();
        }
    }
    let mut locs: Vec<Location> = nw.locations().iter().collect();
    locs.sort_by_key(|l| l.idx().0);
    let mut locs_n = locs.clone();
    locs_n.push(Location::Nowhere);
    for l in locs_n.iter() {
        writeln!(out, "sdsort {} : {}", loc(*l), ids(&nw.start_depots_sorted_by_distance_to(*l))).unwrap();
        writeln!(out, "edsort {} : {}", loc(*l), ids(&nw.end_depots_sorted_by_distance_from(*l))).unwrap();
    }
    for a in locs_n.iter() {
        for b in locs_n.iter() {
            writeln!(
                out,
                "dh {} {} {} {}",
                loc(*a), loc(*b), dist(nw.locations().distance(*a, *b)), dur(nw.locations().travel_time(*a, *b))
            )
            .unwrap();
        }
    }
    // pairwise timing getters on non-depot pairs (used by tours and by the flow network)
    for &a in nodes.iter() {
        for &b in nodes.iter() {
            if nw.node(a).is_depot() && nw.node(b).is_depot() {
                continue;
            }
            if !nw.can_reach(a, b) {
                continue;
            }
            let idle = guarded(|| nw.idle_time_between(a, b));
            writeln!(
                out,
                "pair {} {} mindur={} dht={} dhd={} idle={}",
                nid(a), nid(b), dur(nw.minimal_duration_between_nodes(a, b)), dur(nw.dead_head_time_between(a, b)),
                dist(nw.dead_head_distance_between(a, b)),
                match idle { Ok(d) => dur(d), Err(_) => "PANIC".to_string() }
            )
            .unwrap();
        }
    }
}

pub fn run(case: &serde_json::Value, out: &mut String) {
    match load(&case["instance"]) {
        Err(_) => {
            writeln!(out, "load PANIC").unwrap();
        }
        Ok(nw) => {
            writeln!(out, "load OK").unwrap();
            writeln!(out, "{}", perm_line(&nw)).unwrap();
            match guarded(|| {
                let mut s = String::new();
                dump_network(&nw, &mut s);
                s
            }) {
                Ok(s) => out.push_str(&s),
                Err(_) => writeln!(out, "dump PANIC").unwrap(),
            }
        }
    }
}
