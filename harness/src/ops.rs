// `ops`: sequences of public Schedule modifications (C09, C10, C13). Vehicles and positions are given as
// indices and resolved against the current state; every call runs under catch_unwind; the full state is
// dumped after every operation and the argument schedule is re-dumped to observe immutability.
use crate::common::*;
use crate::sched::{dump_schedule, vid};
use crate::tour::nodes_of;
use model::base_types::{NodeIdx, VehicleIdx, VehicleTypeIdx};
use solution::path::Path;
use solution::segment::Segment;
use solution::Schedule;
use std::fmt::Write;

fn all_vehicles(s: &Schedule) -> Vec<VehicleIdx> {
    s.vehicles_iter_all().chain(s.dummy_iter()).collect()
}

fn pick(v: &[VehicleIdx], k: &serde_json::Value) -> Option<VehicleIdx> {
    if v.is_empty() {
        None
    } else {
        Some(v[(k.as_u64().unwrap() as usize) % v.len()])
    }
}

fn pick3(all: &[VehicleIdx], real: &[VehicleIdx], dummies: &[VehicleIdx], k: &serde_json::Value) -> Option<VehicleIdx> {
    let n = k.as_u64().unwrap();
    if n >= 5000 {
        unreachable!() // resolved by the caller (needs the schedule)
    } else if n >= 4000 {
        dummies.iter().max().copied() // the newest dummy tour
    } else if n >= 3000 {
        real.iter().max().copied() // the newest real vehicle
    } else if n >= 2000 {
        pick(real, &serde_json::json!(n - 2000))
    } else if n >= 1000 {
        pick(dummies, &serde_json::json!(n - 1000))
    } else {
        pick(all, k)
    }
}

/// 5000 + k: the k-th (mod count) real vehicle whose tour starts or ends at the overflow depot; everything else as pick3
fn pick4(s: &Schedule, all: &[VehicleIdx], real: &[VehicleIdx], dummies: &[VehicleIdx], k: &serde_json::Value) -> Option<VehicleIdx> {
    let n = k.as_u64().unwrap();
    if n >= 5000 {
        let (_, osd, oed) = s.get_network().overflow_depot_idxs();
        let ov: Vec<VehicleIdx> = real
            .iter()
            .copied()
            .filter(|v| {
                let t = s.tour_of(*v).unwrap();
                t.start_depot().unwrap() == osd || t.end_depot().unwrap() == oed
            })
            .collect();
        pick(&ov, &serde_json::json!(n - 5000))
    } else {
        pick3(all, real, dummies, k)
    }
}

/// segment (node at position i mod len, node at position min(i + delta, len - 1)); None if it holds only depots
fn segment_at(s: &Schedule, v: VehicleIdx, i: &serde_json::Value, delta: &serde_json::Value) -> Option<(NodeIdx, NodeIdx)> {
    let t = s.tour_of(v).unwrap();
    let a = (i.as_u64().unwrap() as usize) % t.length();
    let b = std::cmp::min(a + delta.as_u64().unwrap() as usize, t.length() - 1);
    let nw = s.get_network();
    if (a..=b).all(|p| nw.node(t.nth_node(p).unwrap()).is_depot()) {
        return None;
    }
    Some((t.nth_node(a).unwrap(), t.nth_node(b).unwrap()))
}

enum Outcome {
    Ok(Schedule, String),
    Err,
    Skip,
}

pub fn run(case: &serde_json::Value, out: &mut String) {
    let nw = match load(&case["instance"]) {
        Err(_) => {
            writeln!(out, "load PANIC").unwrap();
            return;
        }
        Ok(nw) => nw,
    };
    writeln!(out, "load OK").unwrap();
    writeln!(out, "{}", perm_line(&nw)).unwrap();
    let mut s = Schedule::empty(nw.clone());
    dump_schedule(&s, "init", out);
    for (n, op) in case["ops"].as_array().unwrap().iter().enumerate() {
        let op = op.as_array().unwrap();
        let kind = op[0].as_str().unwrap();
        let all = all_vehicles(&s);
        let real: Vec<VehicleIdx> = s.vehicles_iter_all().collect();
        let dummies: Vec<VehicleIdx> = s.dummy_iter().collect();
        let mut before = String::new();
        dump_schedule(&s, "in", &mut before);
        let mut desc = String::new();
        let r = guarded(|| -> Outcome {
            match kind {
                "spawn" => {
                    let ty = VehicleTypeIdx(op[1].as_u64().unwrap() as u16);
                    let nodes = nodes_of(&op[2]);
                    desc = format!("{} {}", ty.0, ids(&nodes));
                    match s.spawn_vehicle_for_path(ty, nodes) {
                        Ok((s2, v)) => Outcome::Ok(s2, format!("new={}", vid(v))),
                        Err(_) => Outcome::Err,
                    }
                }
                "spawn_dummy" => match pick(&dummies, &op[1]) {
                    None => Outcome::Skip,
                    Some(d) => {
                        let ty = VehicleTypeIdx(op[2].as_u64().unwrap() as u16);
                        desc = format!("{} {}", vid(d), ty.0);
                        match s.spawn_vehicle_to_replace_dummy_tour(d, ty) {
                            Ok((s2, v)) => Outcome::Ok(s2, format!("new={}", vid(v))),
                            Err(_) => Outcome::Err,
                        }
                    }
                },
                "delete" => match pick3(&all, &real, &dummies, &op[1]) {
                    None => Outcome::Skip,
                    Some(v) => {
                        desc = vid(v);
                        match s.replace_vehicle_by_dummy(v) {
                            Ok(s2) => Outcome::Ok(s2, String::new()),
                            Err(_) => Outcome::Err,
                        }
                    }
                },
                "addpath" => match (if op[1].as_u64().unwrap() >= 1000 { pick4(&s, &all, &real, &dummies, &op[1]).filter(|v| real.contains(v)) } else { pick(&real, &op[1]) }) {
                    None => Outcome::Skip,
                    Some(v) => {
                        let nodes = nodes_of(&op[2]);
                        desc = format!("{} {}", vid(v), ids(&nodes));
                        match Path::new(nodes, nw.clone()) {
                            Ok(Some(p)) => match s.add_path_to_vehicle_tour(v, p) {
                                Ok((s2, conflict)) => Outcome::Ok(
                                    s2,
                                    format!(
                                        "conflict={}",
                                        match conflict {
                                            Some(p) => p.iter().map(nid).collect::<Vec<_>>().join(","),
                                            None => "-".to_string(),
                                        }
                                    ),
                                ),
                                Err(_) => Outcome::Err,
                            },
                            _ => Outcome::Skip,
                        }
                    }
                },
                "removeseg" => match pick(&all, &op[1]) {
                    None => Outcome::Skip,
                    Some(v) => match segment_at(&s, v, &op[2], &op[3]) {
                        None => Outcome::Skip,
                        Some((a, b)) => {
                            desc = format!("{} {} {}", vid(v), nid(a), nid(b));
                            match s.remove_segment(Segment::new(a, b), v) {
                                Ok(s2) => Outcome::Ok(s2, String::new()),
                                Err(_) => Outcome::Err,
                            }
                        }
                    },
                },
                // vehicle arguments >= 2000 pick among the real vehicles, >= 1000 among the dummy tours, else among all
                "fit" | "override" => match (pick4(&s, &all, &real, &dummies, &op[1]), pick4(&s, &all, &real, &dummies, &op[4])) {
                    (Some(p), Some(r)) if segment_at(&s, p, &op[2], &op[3]).is_some() => {
                        let (a, b) = segment_at(&s, p, &op[2], &op[3]).unwrap();
                        desc = format!("{} {} {} {}", vid(p), nid(a), nid(b), vid(r));
                        if kind == "fit" {
                            match s.fit_reassign(Segment::new(a, b), p, r) {
                                Ok(s2) => Outcome::Ok(s2, String::new()),
                                Err(_) => Outcome::Err,
                            }
                        } else {
                            match s.override_reassign(Segment::new(a, b), p, r) {
                                Ok((s2, d)) => Outcome::Ok(s2, format!("dummy={}", d.map(vid).unwrap_or("-".to_string()))),
                                Err(_) => Outcome::Err,
                            }
                        }
                    }
                    _ => Outcome::Skip,
                },
                "improve" => {
                    let ks = op[1].as_array().unwrap();
                    if ks.is_empty() {
                        desc = "all".to_string();
                        Outcome::Ok(s.improve_depots(None), String::new())
                    } else if real.is_empty() {
                        Outcome::Skip
                    } else {
                        let mut vs: Vec<VehicleIdx> = ks.iter().map(|k| pick(&real, k).unwrap()).collect();
                        vs.sort();
                        vs.dedup();
                        desc = vs.iter().map(|v| vid(*v)).collect::<Vec<_>>().join(",");
                        Outcome::Ok(s.improve_depots(Some(vs)), String::new())
                    }
                }
                "greedy_end" => match s.reassign_end_depots_greedily() {
                    Ok(s2) => Outcome::Ok(s2, String::new()),
                    Err(_) => Outcome::Err,
                },
                "recompute" => {
                    let ts: Vec<VehicleTypeIdx> = op[1].as_array().unwrap().iter().map(|t| VehicleTypeIdx(t.as_u64().unwrap() as u16)).collect();
                    desc = ts.iter().map(|t| t.0.to_string()).collect::<Vec<_>>().join(",");
                    Outcome::Ok(s.recompute_transitions_for(if ts.is_empty() { None } else { Some(ts) }), String::new())
                }
                "consistent_end" => Outcome::Ok(s.reassign_end_depots_consistent_with_transitions(), String::new()),
                // transition replacement: one vehicle moved to the end of cycle k (Transition::move_vehicle, the move of
                // the transition optimiser), the result stored with set_next_day_transitions
                "movetrans" => match pick(&real, &op[1]) {
                    Some(v) => {
                        let ty = s.vehicle_type_of(v).unwrap();
                        let tr = s.next_day_transition_of(ty);
                        let k = (op[2].as_u64().unwrap() as usize) % std::cmp::max(tr.number_of_cycles(), 1);
                        desc = format!("{} {}", vid(v), k);
                        let moved = tr.move_vehicle(v, k, s.get_tours(), &s.get_network());
                        let mut m: im::HashMap<VehicleTypeIdx, solution::transition::Transition> = im::HashMap::new();
                        for t in s.get_network().vehicle_types().iter() {
                            m.insert(t, if t == ty { moved.clone() } else { s.next_day_transition_of(t).clone() });
                        }
                        Outcome::Ok(s.set_next_day_transitions(m), String::new())
                    }
                    None => Outcome::Skip,
                },
                // transition replacement by a 3-opt reordering of the cycle that holds the picked vehicle (TransitionCycle::
                // three_opt + Transition::replace_cycle: the move of the cycle TSP inside the transition optimiser), stored with
                // set_next_day_transitions
                "threeopt" => match pick(&real, &op[1]) {
                    Some(v) => {
                        let ty = s.vehicle_type_of(v).unwrap();
                        let tr = s.next_day_transition_of(ty);
                        let found = tr.cycles_iter().enumerate().find(|(_, c)| c.iter().any(|x| x == v)).map(|(ci, c)| (ci, c.len()));
                        match found {
                            Some((ci, n)) if n >= 3 => {
                                let (a, b, c) = (op[2].as_u64().unwrap() as usize, op[3].as_u64().unwrap() as usize, op[4].as_u64().unwrap() as usize);
                                let i = a % (n - 2);
                                let j = i + 1 + b % (n - 2 - i);
                                let k = j + 1 + c % (n - 1 - j);
                                desc = format!("{} {} {} {} {}", vid(v), ci, i, j, k);
                                let newc = tr.get_cycle(ci).three_opt(i, j, k, s.get_tours(), &s.get_network());
                                let moved = tr.replace_cycle(ci, newc);
                                let mut m: im::HashMap<VehicleTypeIdx, solution::transition::Transition> = im::HashMap::new();
                                for t in s.get_network().vehicle_types().iter() {
                                    m.insert(t, if t == ty { moved.clone() } else { s.next_day_transition_of(t).clone() });
                                }
                                Outcome::Ok(s.set_next_day_transitions(m), String::new())
                            }
                            _ => Outcome::Skip,
                        }
                    }
                    None => Outcome::Skip,
                },
                _ => panic!("unknown op"),
            }
        });
        let mut after = String::new();
        dump_schedule(&s, "in", &mut after);
        let unchanged = (before == after) as u8;
        match r {
            Err(_) => {
                writeln!(out, "OP {} {} {} -> PANIC input_unchanged={}", n, kind, desc, unchanged).unwrap();
                writeln!(out, "{}", panic_note()).unwrap();
            }
            Ok(Outcome::Skip) => writeln!(out, "OP {} {} -> SKIP", n, kind).unwrap(),
            Ok(Outcome::Err) => writeln!(out, "OP {} {} {} -> ERR input_unchanged={}", n, kind, desc, unchanged).unwrap(),
            Ok(Outcome::Ok(s2, info)) => {
                writeln!(out, "OP {} {} {} -> OK {} input_unchanged={}", n, kind, desc, info, unchanged).unwrap();
                s = s2;
                dump_schedule(&s, &format!("op{}", n), out);
            }
        }
    }
}
