// Canonical dump of a Schedule through its public getters (token format, one record per line).
use crate::common::*;
use model::base_types::{NodeIdx, VehicleIdx};
use model::network::Network;
use solution::tour::Tour;
use solution::Schedule;
use std::fmt::Write;

pub fn vid(v: VehicleIdx) -> String {
    format!("{}", v)
}

pub fn tour_tokens(t: &Tour) -> String {
    let nodes: Vec<NodeIdx> = t.all_nodes_iter().collect();
    format!(
        "{} {} {} {} {} {} {} {}",
        t.is_dummy() as u8,
        t.visits_maintenance() as u8,
        dur(t.useful_duration()),
        dist(t.service_distance()),
        dist(t.dead_head_distance()),
        t.costs(),
        nodes.len(),
        ids(&nodes)
    )
}

pub fn dump_schedule(s: &Schedule, label: &str, out: &mut String) {
    let nw: std::sync::Arc<Network> = s.get_network();
    let (ua, ub) = s.unserved_passengers();
    writeln!(
        out,
        "SCHED {} {} {} {} {} {} {}",
        label,
        s.number_of_vehicles(),
        s.number_of_dummy_tours(),
        s.costs(),
        ua,
        ub,
        s.maintenance_violation()
    )
    .unwrap();
    let types: Vec<_> = nw.vehicle_types().iter().collect();
    for v in s.vehicles_iter_all() {
        writeln!(out, "V {} {} {}", vid(v), s.vehicle_type_of(v).unwrap().0, tour_tokens(s.tour_of(v).unwrap())).unwrap();
    }
    for d in s.dummy_iter() {
        writeln!(out, "D {} {}", vid(d), tour_tokens(s.tour_of(d).unwrap())).unwrap();
    }
    let mut cov: Vec<NodeIdx> = nw.coverable_nodes().collect();
    cov.sort();
    for n in cov {
        let f = s.train_formation_of(n).ids();
        let v: Vec<String> = f.iter().map(|x| vid(*x)).collect();
        writeln!(out, "F {} {} {}", nid(n), v.len(), v.join(" ")).unwrap();
    }
    let mut depots: Vec<_> = nw.depots_iter().collect();
    depots.sort();
    for d in depots.iter() {
        for t in types.iter() {
            writeln!(
                out,
                "U {} {} {} {}",
                d.0,
                t.0,
                s.number_of_vehicles_of_same_type_spawned_at(*d, *t),
                s.depot_balance(*d, *t)
            )
            .unwrap();
        }
        writeln!(out, "UT {} {}", d.0, s.number_of_vehicles_spawned_at(*d)).unwrap();
    }
    for t in types.iter() {
        let tr = s.next_day_transition_of(*t);
        writeln!(out, "T {} {} {} {}", t.0, tr.maintenance_violation(), tr.maintenance_counter(), tr.number_of_cycles()).unwrap();
        for (k, c) in tr.cycles_iter().enumerate() {
            let v: Vec<String> = c.iter().map(vid).collect();
            writeln!(out, "C {} {} {} {} {}", t.0, k, c.maintenance_counter(), v.len(), v.join(" ")).unwrap();
        }
        for v in s.vehicles_iter(*t) {
            let nx = guarded(|| tr.get_successor_of(v));
            writeln!(out, "N {} {}", vid(v), match nx { Ok(x) => vid(x), Err(_) => "PANIC".to_string() }).unwrap();
        }
    }
    writeln!(out, "END").unwrap();
}
