// `lsearch` (C08): start solution, local search with the accepted steps recorded by the hook, the candidates
// of each examined step, local optimality of the result and a second run on the result.
// `neigh` (C11): arbitrary walks through the neighbourhood; every candidate is dumped.
use crate::common::*;
use crate::sched::dump_schedule;
use model::network::Network;
use rapid_solve::heuristics::common::ParallelNeighborhood;
use rapid_solve::heuristics::Solver;
use rapid_time::Duration;
use rayon::iter::ParallelIterator;
use solution::Schedule;
use solver::local_search::neighborhood::swaps::SwapInfo;
use solver::local_search::neighborhood::RSSchedParallelNeighborhood;
use solver::local_search::ScheduleWithInfo;
use solver::min_cost_flow_solver::MinCostFlowSolver;
use std::fmt::Write;
use std::sync::Arc;

pub fn objvec(s: &Schedule) -> [i64; 4] {
    let (a, b) = s.unserved_passengers();
    [(a + b) as i64, s.maintenance_violation(), s.number_of_vehicles() as i64, s.costs() as i64]
}

fn vecstr(v: &[i64; 4]) -> String {
    format!("{},{},{},{}", v[0], v[1], v[2], v[3])
}

fn neighborhood(nw: &Arc<Network>) -> RSSchedParallelNeighborhood {
    // the same parameters as build_local_search_solver
    RSSchedParallelNeighborhood::new(Some(Duration::new("3:00:00")), Some(Duration::new("0:10:00")), nw.clone())
}

fn candidates(nb: &RSSchedParallelNeighborhood, s: &Schedule) -> Result<Vec<ScheduleWithInfo>, ()> {
    candidates_after(nb, s, SwapInfo::NoSwap)
}

// the neighbourhood looks at the last accepted swap (provider rotation after a PathExchange)
fn candidates_after(nb: &RSSchedParallelNeighborhood, s: &Schedule, last: SwapInfo) -> Result<Vec<ScheduleWithInfo>, ()> {
    let swi = ScheduleWithInfo::new(s.clone(), last, String::new());
    guarded(|| nb.neighbors_of(&swi).collect::<Vec<_>>())
}

pub fn run_lsearch(case: &serde_json::Value, out: &mut String) {
    let nw = match load(&case["instance"]) {
        Err(_) => {
            writeln!(out, "load PANIC").unwrap();
            return;
        }
        Ok(nw) => nw,
    };
    writeln!(out, "load OK").unwrap();
    writeln!(out, "{}", perm_line(&nw)).unwrap();
    let start = match guarded(|| MinCostFlowSolver::initialize(nw.clone()).solve().improve_depots(None)) {
        Err(_) => {
            writeln!(out, "start PANIC").unwrap();
            writeln!(out, "{}", panic_note()).unwrap();
            return;
        }
        Ok(s) => s,
    };
    // level order of the objective as the solver evaluates it
    let objective = solver::objective::build();
    let ev = objective.evaluate(ScheduleWithInfo::new(start.clone(), SwapInfo::NoSwap, String::new()));
    let js = objective.objective_value_to_json(ev.objective_value());
    let keys: Vec<String> = js.as_object().map(|m| m.keys().cloned().collect()).unwrap_or_default();
    writeln!(out, "LEVELS {}", keys.join(",")).unwrap();
    let vals: Vec<String> = js.as_object().map(|m| m.values().map(|v| v.to_string()).collect()).unwrap_or_default();
    writeln!(out, "STARTEVAL {}", vals.join(",")).unwrap();
    if !nw.maintenance_considered() {
        writeln!(out, "NOSEARCH").unwrap();
        return;
    }
    let _ = solver::verif_hooks::take();
    let solver = solver::local_search::build_local_search_solver(nw.clone());
    let s0 = start.clone();
    let res = guarded(|| solver.solve(ScheduleWithInfo::new(s0, SwapInfo::NoSwap, String::new())));
    let steps: Vec<Schedule> = solver::verif_hooks::take().into_iter().map(|(_, s)| s).collect();
    let result = match res {
        Err(_) => {
            writeln!(out, "search PANIC").unwrap();
            writeln!(out, "{}", panic_note()).unwrap();
            return;
        }
        Ok(r) => r.solution().get_schedule().clone(),
    };
    let mut traj: Vec<Schedule> = vec![start];
    traj.extend(steps);
    writeln!(out, "TRAJ {}", traj.iter().map(|s| vecstr(&objvec(s))).collect::<Vec<_>>().join(" ")).unwrap();
    writeln!(out, "RESULT {}", vecstr(&objvec(&result))).unwrap();
    // every accepted schedule is dumped so that the truthfulness of the compared values can be checked (C09 on
    // the trajectory); the candidate enumeration below examines only some steps
    for (i, st) in traj.iter().enumerate().skip(1).take(40) {
        dump_schedule(st, &format!("traj{}", i), out);
    }
    let nb = neighborhood(&nw);
    let maxexam = case["examine"].as_u64().unwrap_or(3) as usize;
    // examine the first steps and the last one
    let n = traj.len();
    let mut idxs: Vec<usize> = (0..n.saturating_sub(1)).take(maxexam).collect();
    if n >= 2 && !idxs.contains(&(n - 2)) {
        idxs.push(n - 2);
    }
    for i in idxs {
        let prev = &traj[i];
        let next = objvec(&traj[i + 1]);
        match candidates(&nb, prev) {
            Err(_) => writeln!(out, "STEP {} NEIGHPANIC", i).unwrap(),
            Ok(c) => {
                let vs: Vec<[i64; 4]> = c.iter().map(|x| objvec(x.get_schedule())).collect();
                let min = vs.iter().min().cloned().unwrap_or([0; 4]);
                let below = vs.iter().filter(|v| **v < next).count();
                let present = vs.iter().filter(|v| **v == next).count();
                writeln!(out, "STEP {} prev={} next={} ncand={} min={} below_next={} equal_next={}", i,
                         vecstr(&objvec(prev)), vecstr(&next), vs.len(), vecstr(&min), below, present).unwrap();
            }
        }
        dump_schedule(&traj[i + 1], "ls_step", out);
    }
    match candidates(&nb, &result) {
        Err(_) => writeln!(out, "FINAL NEIGHPANIC").unwrap(),
        Ok(c) => {
            let r = objvec(&result);
            let vs: Vec<[i64; 4]> = c.iter().map(|x| objvec(x.get_schedule())).collect();
            let below = vs.iter().filter(|v| **v < r).count();
            writeln!(out, "FINAL result={} ncand={} below_result={}", vecstr(&r), vs.len(), below).unwrap();
        }
    }
    dump_schedule(&result, "ls_result", out);
    // run it again on its own result
    let r2 = guarded(|| solver.solve(ScheduleWithInfo::new(result.clone(), SwapInfo::NoSwap, String::new())));
    let steps2 = solver::verif_hooks::take().len();
    match r2 {
        Err(_) => writeln!(out, "RESOLVE PANIC").unwrap(),
        Ok(r2) => {
            let mut a = String::new();
            let mut b = String::new();
            dump_schedule(&result, "x", &mut a);
            dump_schedule(r2.solution().get_schedule(), "x", &mut b);
            writeln!(out, "RESOLVE steps={} same={}", steps2, (a == b) as u8).unwrap();
        }
    }
}

pub fn run_neigh(case: &serde_json::Value, out: &mut String) {
    let nw = match load(&case["instance"]) {
        Err(_) => {
            writeln!(out, "load PANIC").unwrap();
            return;
        }
        Ok(nw) => nw,
    };
    writeln!(out, "load OK").unwrap();
    writeln!(out, "{}", perm_line(&nw)).unwrap();
    let mcf = match guarded(|| MinCostFlowSolver::initialize(nw.clone()).solve()) {
        Err(_) => {
            writeln!(out, "start PANIC").unwrap();
            writeln!(out, "{}", panic_note()).unwrap();
            return;
        }
        Ok(s) => s,
    };
    // the flow solution as spawned (the model rebuilds it by spawning the same tours in vehicle-id order)
    dump_schedule(&mcf, "mcf", out);
    let mut state = match guarded(|| mcf.improve_depots(None)) {
        Err(_) => {
            writeln!(out, "start PANIC").unwrap();
            writeln!(out, "{}", panic_note()).unwrap();
            return;
        }
        Ok(s) => s,
    };
    let nb = neighborhood(&nw);
    let maxdump = case["maxdump"].as_u64().unwrap_or(60) as usize;
    let mut last = SwapInfo::NoSwap;
    for (d, pick) in case["walk"].as_array().unwrap().iter().enumerate() {
        let mut before = String::new();
        dump_schedule(&state, "base", &mut before);
        out.push_str(&before);
        match candidates_after(&nb, &state, last) {
            Err(_) => {
                writeln!(out, "NEIGH {} PANIC", d).unwrap();
                writeln!(out, "{}", panic_note()).unwrap();
                return;
            }
            Ok(c) => {
                writeln!(
                    out,
                    "NEIGH {} last={} ncand={}",
                    d,
                    match last {
                        SwapInfo::PathExchange(p) => format!("px:{}", crate::sched::vid(p)),
                        _ => "-".to_string(),
                    },
                    c.len()
                )
                .unwrap();
                let mut after = String::new();
                dump_schedule(&state, "base", &mut after);
                writeln!(out, "BASEUNCHANGED {}", (before == after) as u8).unwrap();
                if c.is_empty() {
                    return;
                }
                // dump an evenly spread sample of the candidates plus the picked one
                // a pick is an index (mod the number of candidates) or a text the candidate's description must contain
                // "pat|n": the n-th (mod count) candidate whose description contains pat; without a match, candidate n
                let k = match pick.as_str() {
                    Some(spec) => {
                        let mut it = spec.splitn(2, '|');
                        let pat = it.next().unwrap();
                        let n: usize = it.next().and_then(|x| x.parse().ok()).unwrap_or(0);
                        let hits: Vec<usize> = c
                            .iter()
                            .enumerate()
                            .filter(|(_, x)| x.get_print_text().replace(' ', "_").contains(pat))
                            .map(|(i, _)| i)
                            .collect();
                        if hits.is_empty() { n % c.len() } else { hits[n % hits.len()] }
                    }
                    None => (pick.as_u64().unwrap() as usize) % c.len(),
                };
                writeln!(out, "#pick {} {} {}", d, k, c[k].get_print_text().replace(' ', "_")).unwrap();
                let stride = std::cmp::max(1, c.len() / maxdump);
                for (i, x) in c.iter().enumerate() {
                    if i % stride == 0 || i == k {
                        let mut b = String::new();
                        match guarded(|| dump_schedule(x.get_schedule(), "cand", &mut b)) {
                            Ok(()) => {
                                writeln!(out, "CAND {} {} {}", d, i, x.get_print_text().replace(' ', "_")).unwrap();
                                out.push_str(&b);
                            }
                            Err(_) => writeln!(out, "CANDPANIC {} {}", d, i).unwrap(),
                        }
                    }
                }
                state = c[k].get_schedule().clone();
                last = c[k].get_last_swap_info();
            }
        }
    }
}
