// `solve`: the whole pipeline (server::solve_instance) on one instance; the returned JSON is written
// to the output file as one line `json <...>` after `solve OK`; a panic is reported as `solve PANIC`.
// The caller (Python) runs this in a child process under a wall-clock limit (TIMEOUT outcome).
use crate::common::*;
use crate::sched::dump_schedule;
use std::fmt::Write;

pub fn run(case: &serde_json::Value, out: &mut String) {
    let inst = case["instance"].clone();
    // the loader is run once more only to print the depot permutation of THIS process' hash order?
    // No: hash order differs per HashMap instance, so the permutation is read off the recorded schedules.
    // "entry": "internal" runs the second copy of the wiring (internal::run, the command-line path) instead of
    // server::solve_instance; both carry the same hooks
    let internal_entry = case["entry"].as_str() == Some("internal");
    let r = guarded(move || if internal_entry { internal::run(inst) } else { server::solve_instance(inst) });
    // stage snapshots and accepted local-search steps recorded by the cfg(rssched_verif) hooks
    let recs = solver::verif_hooks::take();
    if let Some((_, s)) = recs.first() {
        writeln!(out, "{}", perm_line(&s.get_network())).unwrap();
        // the predicate that decides whether the local-search stage runs at all
        writeln!(out, "CONSIDERED {}", s.get_network().maintenance_considered()).unwrap();
    }
    for (label, s) in recs.iter() {
        let mut b = String::new();
        match guarded(|| dump_schedule(s, label, &mut b)) {
            Ok(()) => out.push_str(&b),
            Err(_) => writeln!(out, "SCHEDPANIC {}", label).unwrap(),
        }
    }
    // the transition optimisation: start transition per type, every accepted step, the result (hook: record_transition)
    for (label, t) in solver::verif_hooks::take_transitions().iter() {
        let mut parts = label.split(' ');
        let kind = parts.next().unwrap();
        let ty = parts.next().unwrap_or("-1");
        writeln!(out, "TREC {} {} {} {} {}", kind, ty, t.maintenance_violation(), t.maintenance_counter(), t.number_of_cycles()).unwrap();
        for (k, c) in t.cycles_iter().enumerate() {
            let v: Vec<String> = c.iter().map(crate::sched::vid).collect();
            writeln!(out, "TC {} {} {} {}", k, c.maintenance_counter(), v.len(), v.join(" ")).unwrap();
        }
        writeln!(out, "TEND").unwrap();
    }
    // the decoded flow tours per type (input of Schedule::from_tours), recorded by the mcf hook
    for l in solver::verif_hooks::take_mcf() {
        if l.starts_with("MCFTYPE") || l.starts_with("FTOUR") {
            writeln!(out, "{}", l).unwrap();
        }
    }
    match r {
        Err(_) => {
            writeln!(out, "solve PANIC").unwrap();
            writeln!(out, "{}", panic_note()).unwrap();
        }
        Ok(v) => {
            writeln!(out, "solve OK").unwrap();
            writeln!(out, "json {}", serde_json::to_string(&v).unwrap()).unwrap();
        }
    }
}
