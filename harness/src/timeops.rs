// `time`: rapid_time's DateTime as the loader and the JSON writer use it (DateTime::new, as_iso, + / - Duration,
// DateTime - DateTime, the derived order) on strings and operands chosen by the generator — compared with Cal.v.
// `lin` is the point's distance from 0000-01-01T00:00:00 as rapid_time itself computes it.
use rapid_time::{DateTime, Duration};
use std::fmt::Write;
use std::panic::{catch_unwind, AssertUnwindSafe};

fn parse(s: &str) -> Option<DateTime> {
    catch_unwind(AssertUnwindSafe(|| DateTime::new(s))).ok()
}

fn show(t: Option<DateTime>) -> String {
    match t {
        None => "PANIC".to_string(),
        Some(t) => {
            let zero = DateTime::new("0000-01-01T00:00:00");
            let lin = catch_unwind(AssertUnwindSafe(|| (t - zero).in_sec().unwrap()));
            let iso = catch_unwind(AssertUnwindSafe(|| t.as_iso()));
            format!(
                "lin={} iso={}",
                lin.map(|x| x.to_string()).unwrap_or("PANIC".to_string()),
                iso.unwrap_or("PANIC".to_string())
            )
        }
    }
}

pub fn run(case: &serde_json::Value, out: &mut String) {
    for (k, op) in case["ops"].as_array().unwrap().iter().enumerate() {
        let a = op.as_array().unwrap();
        let kind = a[0].as_str().unwrap();
        let s1 = a[1].as_str().unwrap();
        match kind {
            "parse" => writeln!(out, "{} parse -> {}", k, show(parse(s1))).unwrap(),
            "cmp" => {
                let r = match (parse(s1), parse(a[2].as_str().unwrap())) {
                    (Some(x), Some(y)) => format!("{:?} le={}", x.cmp(&y), x <= y),
                    _ => "PANIC".to_string(),
                };
                writeln!(out, "{} cmp -> {}", k, r).unwrap();
            }
            "add" | "sub" => {
                let l: u64 = a[2].as_str().unwrap().parse().unwrap();
                let r = parse(s1).and_then(|t| {
                    catch_unwind(AssertUnwindSafe(|| {
                        if kind == "add" {
                            t + Duration::from_seconds(l)
                        } else {
                            t - Duration::from_seconds(l)
                        }
                    }))
                    .ok()
                });
                writeln!(out, "{} {} -> {}", k, kind, show(r)).unwrap();
            }
            "diff" => {
                let r = match (parse(s1), parse(a[2].as_str().unwrap())) {
                    (Some(x), Some(y)) => catch_unwind(AssertUnwindSafe(|| (x - y).in_sec().unwrap()))
                        .map(|d| d.to_string())
                        .unwrap_or("PANIC".to_string()),
                    _ => "PANIC".to_string(),
                };
                writeln!(out, "{} diff -> {}", k, r).unwrap();
            }
            _ => {}
        }
    }
}
