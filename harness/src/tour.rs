// `tour`: Tour-level operations called directly on Tour values obtained through Schedule::tour_of (C12, C09).
use crate::common::*;
use model::base_types::{NodeIdx, VehicleIdx, VehicleTypeIdx};
use model::network::Network;
use solution::path::Path;
use solution::segment::Segment;
use solution::tour::Tour;
use solution::Schedule;
use std::fmt::Write;
use std::sync::Arc;

pub fn parse_nid(s: &str) -> NodeIdx {
    let (k, i) = s.split_once('_').expect("node id");
    let i: u16 = i.parse().expect("node idx");
    match k {
        "sdep" => NodeIdx::StartDepot(i),
        "trip" => NodeIdx::Service(i),
        "main" => NodeIdx::Maintenance(i),
        "edep" => NodeIdx::EndDepot(i),
        _ => panic!("bad node id"),
    }
}

pub fn parse_vid(s: &str) -> VehicleIdx {
    let (k, i) = s.split_once('_').expect("vehicle id");
    let i: u16 = i.parse().expect("vehicle idx");
    match k {
        "veh" => VehicleIdx::Vehicle(i),
        "dummy" => VehicleIdx::Dummy(i),
        _ => panic!("bad vehicle id"),
    }
}

pub fn nodes_of(v: &serde_json::Value) -> Vec<NodeIdx> {
    v.as_array().unwrap().iter().map(|x| parse_nid(x.as_str().unwrap())).collect()
}

pub fn tour_line(t: &Tour) -> String {
    let nodes: Vec<NodeIdx> = t.all_nodes_iter().collect();
    format!(
        "tour dummy={} vm={} useful={} sdist={} ddist={} costs={} nodes={}",
        t.is_dummy() as u8,
        t.visits_maintenance() as u8,
        dur(t.useful_duration()),
        dist(t.service_distance()),
        dist(t.dead_head_distance()),
        t.costs(),
        ids(&nodes)
    )
}

fn path_str(p: &Option<Path>) -> String {
    match p {
        Some(p) => {
            let v: Vec<NodeIdx> = p.iter().collect();
            ids(&v)
        }
        None => "-".to_string(),
    }
}

fn base_tour(nw: &Arc<Network>, ty: u16, base: &[NodeIdx], dummy: bool) -> Result<Result<Tour, String>, ()> {
    guarded(|| {
        let s = Schedule::empty(nw.clone());
        let (s1, v) = s.spawn_vehicle_for_path(VehicleTypeIdx(ty), base.to_vec())?;
        if !dummy {
            Ok(s1.tour_of(v)?.clone())
        } else {
            let s2 = s1.replace_vehicle_by_dummy(v)?;
            let d = s2.dummy_iter().next().ok_or("no dummy".to_string())?;
            Ok(s2.tour_of(d)?.clone())
        }
    })
}

pub fn run(case: &serde_json::Value, out: &mut String) {
    let nw = match load(&case["instance"]) {
        Err(_) => {
            writeln!(out, "load PANIC").unwrap();
            return;
        }
        Ok(nw) => nw,
    };
    writeln!(out, "load OK").unwrap();
    writeln!(out, "{}", perm_line(&nw)).unwrap();
    for (k, t) in case["tours"].as_array().unwrap().iter().enumerate() {
        let ty = t["ty"].as_u64().unwrap() as u16;
        let base = nodes_of(&t["base"]);
        let dummy = t["dummy"].as_bool().unwrap();
        let tour = match base_tour(&nw, ty, &base, dummy) {
            Err(_) => {
                writeln!(out, "T {} base PANIC", k).unwrap();
                continue;
            }
            Ok(Err(_)) => {
                writeln!(out, "T {} base ERR", k).unwrap();
                continue;
            }
            Ok(Ok(t)) => t,
        };
        writeln!(out, "T {} base OK", k).unwrap();
        writeln!(out, "{}", tour_line(&tour)).unwrap();
        for (j, c) in t["calls"].as_array().unwrap().iter().enumerate() {
            let c = c.as_array().unwrap();
            let kind = c[0].as_str().unwrap();
            let args: Vec<NodeIdx> = c[1..].iter().map(|x| parse_nid(x.as_str().unwrap())).collect();
            let head = format!("C {} {} {}", k, j, kind);
            match kind {
                "insert" => {
                    // Path::new validates the node sequence; an invalid path is not an insertable path
                    let p = guarded(|| Path::new(args.clone(), nw.clone()));
                    match p {
                        Err(_) => writeln!(out, "{} -> PATHPANIC", head).unwrap(),
                        Ok(Err(_)) => writeln!(out, "{} -> PATHERR", head).unwrap(),
                        Ok(Ok(None)) => writeln!(out, "{} -> PATHNONE", head).unwrap(),
                        Ok(Ok(Some(p))) => match guarded(|| tour.insert_path(p)) {
                            Err(_) => writeln!(out, "{} -> PANIC", head).unwrap(),
                            Ok((nt, removed)) => {
                                writeln!(out, "{} -> OK", head).unwrap();
                                writeln!(out, "{}", tour_line(&nt)).unwrap();
                                writeln!(out, "removed {}", path_str(&removed)).unwrap();
                            }
                        },
                    }
                }
                "remove" => match guarded(|| tour.remove(Segment::new(args[0], args[1]))) {
                    Err(_) => writeln!(out, "{} -> PANIC", head).unwrap(),
                    Ok(Err(_)) => writeln!(out, "{} -> ERR", head).unwrap(),
                    Ok(Ok((nt, removed))) => {
                        writeln!(out, "{} -> OK", head).unwrap();
                        match nt {
                            Some(nt) => writeln!(out, "{}", tour_line(&nt)).unwrap(),
                            None => writeln!(out, "tour none").unwrap(),
                        }
                        writeln!(out, "removed {}", path_str(&Some(removed))).unwrap();
                    }
                },
                "subpath" => match guarded(|| tour.sub_path(Segment::new(args[0], args[1]))) {
                    Err(_) => writeln!(out, "{} -> PANIC", head).unwrap(),
                    Ok(Err(_)) => writeln!(out, "{} -> ERR", head).unwrap(),
                    Ok(Ok(p)) => writeln!(out, "{} -> OK {}", head, path_str(&Some(p))).unwrap(),
                },
                "conflict" => match guarded(|| tour.conflict(Segment::new(args[0], args[1]))) {
                    Err(_) => writeln!(out, "{} -> PANIC", head).unwrap(),
                    Ok(p) => writeln!(out, "{} -> OK {}", head, path_str(&p)).unwrap(),
                },
                "lnr" => match guarded(|| tour.latest_not_reaching_node(args[0])) {
                    Err(_) => writeln!(out, "{} -> PANIC", head).unwrap(),
                    Ok(p) => writeln!(out, "{} -> OK {}", head, opt(p)).unwrap(),
                },
                "removable" => match guarded(|| tour.check_removable(Segment::new(args[0], args[1]))) {
                    Err(_) => writeln!(out, "{} -> PANIC", head).unwrap(),
                    Ok(Err(_)) => writeln!(out, "{} -> ERR", head).unwrap(),
                    Ok(Ok(())) => writeln!(out, "{} -> OK", head).unwrap(),
                },
                "rsd" | "red" => {
                    let r = guarded(|| {
                        if kind == "rsd" {
                            tour.replace_start_depot(args[0])
                        } else {
                            tour.replace_end_depot(args[0])
                        }
                    });
                    match r {
                        Err(_) => writeln!(out, "{} -> PANIC", head).unwrap(),
                        Ok(Err(_)) => writeln!(out, "{} -> ERR", head).unwrap(),
                        Ok(Ok(nt)) => {
                            writeln!(out, "{} -> OK", head).unwrap();
                            writeln!(out, "{}", tour_line(&nt)).unwrap();
                        }
                    }
                }
                "pre" | "sub" => {
                    let r = guarded(|| {
                        if kind == "pre" {
                            tour.preceding_overhead(args[0])
                        } else {
                            tour.subsequent_overhead(args[0])
                        }
                    });
                    match r {
                        Err(_) => writeln!(out, "{} -> PANIC", head).unwrap(),
                        Ok(Err(_)) => writeln!(out, "{} -> ERR", head).unwrap(),
                        Ok(Ok(d)) => writeln!(out, "{} -> OK {}", head, dur(d)).unwrap(),
                    }
                }
                "mc" => match guarded(|| tour.maintenance_counter()) {
                    Err(_) => writeln!(out, "{} -> PANIC", head).unwrap(),
                    Ok(c) => writeln!(out, "{} -> OK {}", head, c).unwrap(),
                },
                _ => panic!("unknown call"),
            }
        }
    }
}
