// `trans`: sequences of rotation-cycle operations on a Transition over tours taken from a real schedule (C15).
use crate::common::*;
use crate::sched::vid;
use crate::tour::{nodes_of, parse_nid, parse_vid};
use model::base_types::{VehicleIdx, VehicleTypeIdx, INF_DISTANCE};
use model::network::Network;
use solution::tour::Tour;
use solution::transition::Transition;
use solution::Schedule;
use std::fmt::Write;
use std::sync::Arc;

fn vi_line(nw: &Network, v: VehicleIdx, t: &Tour) -> String {
    format!(
        "VI {} {} {} {}",
        vid(v),
        t.maintenance_counter(),
        nid(t.start_depot().unwrap()),
        nid(t.end_depot().unwrap())
    ) + &format!(
        " self={}",
        nw.dead_head_distance_between(t.end_depot().unwrap(), t.start_depot().unwrap())
            .in_meter()
            .unwrap_or(INF_DISTANCE)
    )
}

pub fn dump_transition(t: &Transition, out: &mut String) {
    dump_transition_tagged(t, ["TR", "CY", "LK", "EM"], out)
}

pub fn dump_transition_tagged(t: &Transition, tags: [&str; 4], out: &mut String) {
    writeln!(out, "{} {} {} {}", tags[0], t.maintenance_violation(), t.maintenance_counter(), t.number_of_cycles()).unwrap();
    for (k, c) in t.cycles_iter().enumerate() {
        let v: Vec<String> = c.iter().map(vid).collect();
        writeln!(out, "{} {} {} {} {}", tags[1], k, c.maintenance_counter(), v.len(), v.join(" ")).unwrap();
    }
    let (mut lk, em) = t.verif_lookup_and_empties();
    lk.sort();
    let l: Vec<String> = lk.iter().map(|(v, k)| format!("{} {}", vid(*v), k)).collect();
    writeln!(out, "{} {} {}", tags[2], lk.len(), l.join(" ")).unwrap();
    let e: Vec<String> = em.iter().map(|k| format!("{}", k)).collect();
    writeln!(out, "{} {} {}", tags[3], em.len(), e.join(" ")).unwrap();
}

pub fn run(case: &serde_json::Value, out: &mut String) {
    let nw: Arc<Network> = match load(&case["instance"]) {
        Err(_) => {
            writeln!(out, "load PANIC").unwrap();
            return;
        }
        Ok(nw) => nw,
    };
    writeln!(out, "load OK").unwrap();
    writeln!(out, "{}", perm_line(&nw)).unwrap();
    let ty = VehicleTypeIdx(case["ty"].as_u64().unwrap() as u16);
    let mut s = Schedule::empty(nw.clone());
    for p in case["paths"].as_array().unwrap() {
        let nodes = nodes_of(p);
        match guarded(|| s.spawn_vehicle_for_path(ty, nodes.clone())) {
            Ok(Ok((s2, _))) => s = s2,
            _ => {
                writeln!(out, "spawn FAIL").unwrap();
                return;
            }
        }
    }
    let mut tours = s.get_tours().clone();
    let vehicles: Vec<VehicleIdx> = s.vehicles_iter(ty).collect();
    for v in vehicles.iter() {
        writeln!(out, "{}", vi_line(&nw, *v, tours.get(v).unwrap())).unwrap();
    }
    let mut t: Transition = s.next_day_transition_of(ty).clone();
    writeln!(out, "TOP init -> OK").unwrap();
    dump_transition(&t, out);
    let empty: im::HashMap<VehicleIdx, &Tour> = im::HashMap::new();
    // the transition optimiser reads the tours of the schedule: comparable only while no tour has been replaced
    let mut dirty = false;
    for (n, op) in case["tops"].as_array().unwrap().iter().enumerate() {
        let op = op.as_array().unwrap();
        let kind = op[0].as_str().unwrap();
        let head = format!("TOP {} {}", n, op.iter().map(|x| x.to_string().replace('"', "")).collect::<Vec<_>>().join(" "));
        let arg_v = |i: usize| parse_vid(op[i].as_str().unwrap());
        let arg_n = |i: usize| op[i].as_u64().unwrap() as usize;
        let r: Result<Option<(Transition, Vec<(VehicleIdx, Tour)>)>, ()> = guarded(|| match kind {
            "new" => Some((Transition::new_fast(&vehicles, &tours, &nw), vec![])),
            "move" => Some((t.move_vehicle(arg_v(1), arg_n(2), &tours, &nw), vec![])),
            "remove" => Some((t.remove_vehicle(arg_v(1), &empty, &tours, &nw), vec![])),
            "addown" => Some((t.add_vehicle_to_own_cycle(arg_v(1), tours.get(&arg_v(1)).unwrap(), &nw), vec![])),
            "addend" => Some((t.add_vehicle_at_the_end(arg_v(1), arg_n(2), &empty, &tours, &nw), vec![])),
            "update" => {
                let v = arg_v(1);
                let d = parse_nid(op[3].as_str().unwrap());
                let old = tours.get(&v).unwrap();
                let nt = if op[2].as_str().unwrap() == "rsd" {
                    old.replace_start_depot(d)
                } else {
                    old.replace_end_depot(d)
                };
                match nt {
                    Err(_) => None,
                    Ok(nt) => Some((t.update_vehicle(v, &nt, &empty, &tours, &nw), vec![(v, nt)])),
                }
            }
            // two vehicles updated in ONE schedule operation: the second update sees the first one's new tour through
            // `updated_tours` while `old_tours` still holds both old tours (update_transitions_and_violation_fast)
            "update2" => {
                let (v1, v2) = (arg_v(1), arg_v(4));
                let mk = |v: VehicleIdx, k: &str, d: model::base_types::NodeIdx| {
                    let old = tours.get(&v).unwrap();
                    if k == "rsd" { old.replace_start_depot(d) } else { old.replace_end_depot(d) }
                };
                let n1 = mk(v1, op[2].as_str().unwrap(), parse_nid(op[3].as_str().unwrap()));
                let n2 = mk(v2, op[5].as_str().unwrap(), parse_nid(op[6].as_str().unwrap()));
                match (n1, n2) {
                    (Ok(n1), Ok(n2)) if v1 != v2 => {
                        let t1 = t.update_vehicle(v1, &n1, &empty, &tours, &nw);
                        let mut upd: im::HashMap<VehicleIdx, &Tour> = im::HashMap::new();
                        upd.insert(v1, &n1);
                        let t2 = t1.update_vehicle(v2, &n2, &upd, &tours, &nw);
                        Some((t2, vec![(v1, n1.clone()), (v2, n2.clone())]))
                    }
                    _ => None,
                }
            }
            "threeopt" => {
                let c = t.get_cycle(arg_n(1)).three_opt(arg_n(2), arg_n(3), arg_n(4), &tours, &nw);
                Some((t.replace_cycle(arg_n(1), c), vec![]))
            }
            // the whole transition optimisation (transition local search with the cycle TSP inside) started from the
            // current transition; the accepted steps (hook) are printed as TS blocks before the result
            "optimise" => {
                if dirty {
                    None
                } else {
                    use rapid_solve::heuristics::Solver;
                    let _ = solver::verif_hooks::take_transitions();
                    let opt = solver::transition_local_search::build_transition_local_search_solver(&s, nw.clone());
                    let start = solver::transition_local_search::TransitionWithInfo::new(t.clone(), String::new());
                    let res = opt.solve(start).unwrap().unwrap_transition();
                    for (_, st) in solver::verif_hooks::take_transitions().iter() {
                        dump_transition_tagged(st, ["TS", "CS", "LS", "ES"], out);
                    }
                    Some((res, vec![]))
                }
            }
            "succ" => {
                let sv = t.get_successor_of(arg_v(1));
                writeln!(out, "SUCC {} {}", vid(arg_v(1)), vid(sv)).unwrap();
                None
            }
            _ => panic!("unknown op"),
        });
        match r {
            Err(_) => writeln!(out, "{} -> PANIC", head).unwrap(),
            Ok(None) => writeln!(out, "{} -> NOOP", head).unwrap(),
            Ok(Some((t2, upd))) => {
                writeln!(out, "{} -> OK", head).unwrap();
                t = t2;
                if !upd.is_empty() {
                    dirty = true;
                }
                for (v, nt) in upd {
                    writeln!(out, "{}", vi_line(&nw, v, &nt)).unwrap();
                    tours.insert(v, nt);
                }
            }
        }
        dump_transition(&t, out);
    }
}
